CONSTANTS
  Defects = {}
  ClockModel = "distinct"
  Ord0 <- mcOrd
  Menu <- mcMenu
  Init0 <- mcInit
  SrcVals = {"S0", "S1"}
  UserActs = {"build", "clean"}
  Goals = {""}
  MaxUser = 3
  FreeFrom = 3
  Script <- mcScriptBCB
SPECIFICATION LiveSpec
PROPERTY Terminates
CHECK_DEADLOCK FALSE
INVARIANTS
  C05_Returns C05_NoChannelError C05_NoDeadlock
