------------------------------- MODULE MC -------------------------------
(* Model-checking frame around Ruler: a bounded alphabet of user-level actions, optional Script,
   serial or free scheduling, stamp-normalising VIEW.  Scenario constants come from the cfg. *)
EXTENDS RulerProps

CONSTANTS Ord0,        \* path names in lexicographic order
          Menu,        \* sequence of rule sets (each a sequence of rules in sorted order); the first one is the initial set
          Init0,       \* initial workspace contents: sequence of <<path, content>>
          SrcVals,     \* contents a leaf can be edited to
          UserActs,    \* subset of {"rules","edit","tamper","deltarget","delleaf","delcache","delruler","env","mv","corrupt","build","clean","crash"}
          Goals,       \* goals offered to build / clean ("" = everything)
          MaxUser,     \* bound on the number of user-level actions
          FreeFrom,    \* invocations started as user action number >= FreeFrom are scheduled freely, earlier ones serially
          Script       \* <<>> or the exact sequence of user-level actions

\* a rule whose command lines are exactly what the harness writes into the rules file for it
MkRule(tg, src, kind, id, omit, mask, x, pf) ==
  LET o == IF omit > 0 THEN <<"o" \o ToString(omit)>> ELSE <<>>
      m == IF mask # <<>> THEN <<"m" \o JoinS([i \in DOMAIN mask |-> ToString(mask[i])], ".")>> ELSE <<>>
      xx == IF x THEN <<"x">> ELSE <<>>
      fl == IF o \o m \o xx = <<>> THEN "-" ELSE JoinS(o \o m \o xx, "+")
      line == "vcmd " \o kind \o " " \o id \o " " \o JoinS(tg, ",") \o " " \o JoinS(src, ",") \o " " \o fl
  IN [tg |-> tg, src |-> src, cl |-> (IF pf THEN <<"vcmd false", ";">> ELSE <<>>) \o <<line>>,
      kind |-> kind, id |-> id, omit |-> omit, mask |-> mask, x |-> x, pf |-> pf]
Rl(tg, src, kind, id) == MkRule(tg, src, kind, id, 0, <<>>, FALSE, FALSE)
\* the first line of the command is killed by a signal (no exit code) instead of exiting non-zero
Killed(r) == [r EXCEPT !.cl = <<"vcmd killed">> \o Tail(@)]

\* workspace directories the user may remove and make again: directory name -> the paths in it (overridden by scenarios that have some)
DirPaths == [d \in {} |-> {}]

Init ==
  /\ InitCore /\ ord = Ord0 /\ rules = Menu[1]
  /\ ws = [p \in {Init0[i][1] : i \in DOMAIN Init0} |->
             [c |-> Init0[CHOOSE i \in DOMAIN Init0 : Init0[i][1] = p][2], m |-> 1, x |-> FALSE]]

Free == g.nuser >= FreeFrom
Sched(t) == Free \/ SerialPick(t)
Can(a) == Idle /\ a \in UserActs /\ g.nuser < MaxUser
Scr(e) == Script = <<>> \/ (g.nuser + 1 \in DOMAIN Script /\ Script[g.nuser + 1] = e)

UserNext ==
  \/ Can("rules") /\ \E k \in DOMAIN Menu : Menu[k] # rules /\ Scr(<<"rules", k>>) /\ SetRules(Menu[k])
  \/ Can("edit") /\ \E p \in Leaves, c \in SrcVals : (IF Has(ws, p) THEN ws[p].c # c ELSE TRUE) /\ Scr(<<"edit", p, c>>) /\ Edit(p, c)
  \/ Can("tamper") /\ \E p \in AllTargets \ rdir.nodir : (IF Has(ws, p) THEN ws[p].c # "J" ELSE TRUE) /\ Scr(<<"edit", p, "J">>) /\ Edit(p, "J")
  \/ Can("deltarget") /\ \E p \in AllTargets \cap DOMAIN ws : Scr(<<"del", p>>) /\ DelFile(p)
  \/ Can("delleaf") /\ \E p \in Leaves \cap DOMAIN ws : Scr(<<"del", p>>) /\ DelFile(p)
  \/ Can("delcache") /\ \E n \in DOMAIN cache : Scr(<<"delcache", n>>) /\ DelCache(n)
  \/ Can("delruler") /\ \E w \in {"all", "cache", "history", "table"} : Scr(<<"delruler", w>>) /\ DelRuler(w)
  \/ Can("env") /\ \E v \in {"e0", "e1"} : v # env /\ Scr(<<"env", v>>) /\ ChangeEnv(v)
  \/ Can("mv") /\ Has(ws, "zz") /\ \E q \in AllTargets \ rdir.nodir : Scr(<<"mv", "zz", q>>) /\ Move("zz", q)
  \/ Can("corrupt") /\ rdir.tab = "ok" /\ Scr(<<"corrupt", "table", "">>) /\ Corrupt("table", "")
  \/ Can("corrupt") /\ \E rid \in DOMAIN hist : Scr(<<"corrupt", "hist", rid>>) /\ Corrupt("hist", rid)
  \/ Can("rmdir") /\ \E d \in DOMAIN DirPaths : Scr(<<"rmdir", d>>) /\ RmDir(d, DirPaths[d])
  \/ Can("mkdir") /\ \E d \in DOMAIN DirPaths : Scr(<<"mkdir", d>>) /\ MkDir(d, DirPaths[d])
  \/ Can("build") /\ \E gl \in Goals : Scr(<<"build", gl>>) /\ StartBuild(gl)
  \/ Can("clean") /\ \E gl \in Goals : Scr(<<"clean", gl>>) /\ StartClean(gl)
  \/ Can("crash") /\ Can("build") /\ \E n \in 1..3 : CrashInInit(n)
        /\ (Script = <<>> \/ (g.nuser + 1 = Len(Script) /\ Script[g.nuser + 1][1] \in {"build", "clean"}))

\* with a Script, only the last scripted invocation can be killed
CrashOK == "crash" \in UserActs /\ (Script = <<>> \/ g.nuser = Len(Script))
RunNext ==
  /\ mode # "idle"
  /\ \/ (Free \/ MainEnabled) /\ MainStep
     \/ \E t \in DOMAIN tl : Sched(t) /\ AnyThreadStep(t)
     \/ CrashOK /\ Crash
     \/ CrashOK /\ \E t \in DOMAIN tl, k \in 1..3, how \in {"empty", "torn", "full"} : Sched(t) /\ CrashInExec(t, k, how)
     \/ CrashOK /\ CrashInSave

Next == UserNext \/ RunNext
Spec == Init /\ [][Next]_vars
\* C05 as a liveness property: under weak fairness of the steps of an invocation every invocation returns
LiveSpec == Init /\ [][Next]_vars /\ WF_vars(RunNext)
Terminates == (mode # "idle") ~> (mode = "idle")

(* ---------------- stamp-normalising view ---------------------------------- *)
StampsOf(F) == {F[k].m : k \in DOMAIN F}
AllStamps == (StampsOf(ws) \cup StampsOf(cache) \cup StampsOf(fstab) \cup StampsOf(mfst)
              \cup StampsOf(g.pre.ws) \cup StampsOf(g.pre.cache) \cup StampsOf(g.pre.fstab)
              \cup UNION {{tl[t].blob[i].m : i \in DOMAIN tl[t].blob} : t \in DOMAIN tl}) \ {0}
R(m) == IF m = 0 THEN 0 ELSE 1 + Cardinality({s \in AllStamps : s < m})
NF(f) == [f EXCEPT !.m = R(f.m)]
NM(F) == [k \in DOMAIN F |-> NF(F[k])]
ClockView == IF Tick THEN (IF clock \in AllStamps THEN "in" ELSE "fresh") ELSE "-"
EvView == IF ev.a \in {"ret", "crash"} THEN ev ELSE [a |-> "-"]
GView == [g EXCEPT !.pre = [ws |-> NM(@.ws), cache |-> NM(@.cache), hist |-> @.hist, fstab |-> NM(@.fstab)]]
TlView == [t \in DOMAIN tl |-> [tl[t] EXCEPT !.blob = [i \in DOMAIN @ |-> NF(@[i])]]]
View == <<rules, env, NM(ws), NM(cache), hist, NM(fstab), rdir, ClockView, mode, goal, plan, TlView, inbox, rxAlive,
          mj, merrs, mstat, NM(mfst), early, verdict, EvView, GView>>
NoScript == <<>>

\* for C06 at model level: every return of a build, keyed by its position in the history; lib/verif.py checks that all
\* returns with the same key (the same pre-state, different interleavings) carry the same outcome
ErrBag(errs) == {<<e, Cardinality({j \in DOMAIN errs : errs[j] = e})>> : e \in SeqSet(errs)}
OutcomeProbe == (ev.a = "ret" /\ ev.kind = "build" /\ Script # <<>>) =>
                   PrintT(<<"OUTCOME", g.nuser, ToString(<<ev.verdict, ErrBag(ev.errs), WsContents>>)>>)
=============================================================================
