CONSTANTS
  Defects = {}
  ClockModel = "tick"
  Ord0 <- mcOrd2
  Menu <- mcMenu2
  Init0 <- mcInit2
  SrcVals = {"S0", "S1"}
  UserActs = {"edit", "build", "clean", "tamper", "deltarget"}
  Goals = {"", "t1"}
  MaxUser = 5
  Script <- NoScript
INIT Init
NEXT Next
CHECK_DEADLOCK FALSE
INVARIANT C18_SameWithoutTable
