------------------------------- MODULE SortImpl -------------------------------
(* C12, model level: the iterative DFS of sort.rs (sort_once, topological_sort, topological_sort_all) transcribed as a recursive operator and checked by TLC against the declarative conditions for EVERY dependency graph on the rules T (single-target rules; multi-target rules and leaves are covered through the real code by SortTrace).  Fixed = FALSE is the pinned algorithm before the repair of D1 (kept as a self-test: TLC must refute it). *)
EXTENDS Naturals, Sequences, FiniteSets, TLC
CONSTANTS T,            \* sequence of target names in lexicographic order, e.g. <<"a","b","c">>
          Fixed         \* TRUE: repaired algorithm (D1), FALSE: pinned algorithm
N == Len(T)
Idx == 1..N
VARIABLES dep, goal     \* dep[i] = set of rule indices rule i depends on (leaf sources are irrelevant here); goal in 0..N

(* ---------------- declarative ---------------- *)
RECURSIVE ReachFrom(_, _)
ReachFrom(S, seen) == LET new == (UNION {dep[i] : i \in S}) \ seen IN
                      IF new = {} THEN seen ELSE ReachFrom(new, seen \cup new)
Scope == IF goal = 0 THEN Idx ELSE ReachFrom({goal}, {goal})
Below(i) == ReachFrom({i}, {}) \* strict descendants (may contain i when i is on a cycle)
CycleReachable == \E i \in Scope : i \in Below(i)
SelfDep == \E i \in Scope : i \in dep[i]
ValidOrder(o) == /\ {o[k] : k \in DOMAIN o} = Scope /\ Len(o) = Cardinality(Scope)
                 /\ \A k \in DOMAIN o : \A j \in dep[o[k]] : \E m \in 1..(k-1) : o[m] = j

(* ---------------- transcription of sort_once ---------------- *)
\* stack: sequence of [i, v] (v = visited); result record [err, order, taken]
SortedSeq(S) == LET RECURSIVE F(_, _)
                    F(k, acc) == IF k > N THEN acc ELSE F(k + 1, IF k \in S THEN Append(acc, k) ELSE acc)
                IN F(1, <<>>)
RECURSIVE Loop(_, _, _, _)
Loop(taken, stack, inStack, order) ==
  IF stack = <<>> THEN [err |-> "", order |-> order, taken |-> taken]
  ELSE LET f == stack[Len(stack)]
           st == SubSeq(stack, 1, Len(stack) - 1)
           ins == inStack \ {f.i} IN
       IF f.v THEN Loop(taken, st, ins, Append(order, f.i))
       ELSE
         \* scan the sources in sorted order
         LET srcs == SortedSeq(dep[f.i])
             RECURSIVE ScanS(_, _, _, _)
             \* returns [err, taken, rev, st]
             ScanS(k, tk, rev, s2) ==
               IF k > Len(srcs) THEN [err |-> "", taken |-> tk, rev |-> rev, st |-> s2]
               ELSE LET j == srcs[k] IN
                 IF j \notin tk THEN ScanS(k + 1, tk \cup {j}, Append(rev, j), s2)
                 ELSE IF j = f.i THEN [err |-> "self", taken |-> tk, rev |-> rev, st |-> s2]
                 ELSE IF j \in ins THEN [err |-> "cycle", taken |-> tk, rev |-> rev, st |-> s2]
                 ELSE IF Fixed /\ \E q \in DOMAIN s2 : s2[q].i = j /\ ~s2[q].v
                      THEN LET q == CHOOSE q \in DOMAIN s2 : s2[q].i = j /\ ~s2[q].v IN
                           ScanS(k + 1, tk, Append(rev, j), SubSeq(s2, 1, q - 1) \o SubSeq(s2, q + 1, Len(s2)))
                 ELSE ScanS(k + 1, tk, rev, s2)
             r == ScanS(1, taken, <<>>, st) IN
         IF r.err # "" THEN [err |-> r.err, order |-> order, taken |-> r.taken]
         ELSE LET pushed == r.st \o <<[i |-> f.i, v |-> TRUE]>> \o
                            [k \in 1..Len(r.rev) |-> [i |-> r.rev[Len(r.rev) + 1 - k], v |-> FALSE]]
                  ins2 == IF Fixed THEN ins \cup {f.i} ELSE ins \cup {f.i} \cup {r.rev[k] : k \in DOMAIN r.rev}
              IN Loop(r.taken, pushed, ins2, order)

SortOnce(start, taken, order) ==
  IF start \in taken THEN [err |-> "", order |-> order, taken |-> taken]
  ELSE Loop(taken \cup {start}, <<[i |-> start, v |-> FALSE]>>, IF Fixed THEN {} ELSE {start}, order)

ImplSort ==
  IF goal # 0 THEN SortOnce(goal, {}, <<>>)
  ELSE LET RECURSIVE All(_, _)
           All(k, acc) == IF k > N \/ acc.err # "" THEN acc ELSE All(k + 1, SortOnce(k, acc.taken, acc.order))
       IN All(1, [err |-> "", order |-> <<>>, taken |-> {}])

(* ---------------- the recursive depth-first post-order Ruler.tla uses as the plan (operator Post there) ------ *)
RECURSIVE PostR(_, _)
PostR(i, acc) == IF \E k \in DOMAIN acc : acc[k] = i THEN acc
                 ELSE LET srcs == SortedSeq(dep[i])
                          RECURSIVE F(_, _)
                          F(j, a) == IF j > Len(srcs) THEN a ELSE F(j + 1, PostR(srcs[j], a))
                      IN Append(F(1, acc), i)
PostPlan == IF goal # 0 THEN PostR(goal, <<>>)
            ELSE LET RECURSIVE All2(_, _)
                     All2(k, a) == IF k > N THEN a ELSE All2(k + 1, PostR(k, a))
                 IN All2(1, <<>>)

(* ---------------- check ---------------- *)
Init == dep \in [Idx -> SUBSET Idx] /\ goal \in 0..N
Next == UNCHANGED <<dep, goal>>
Conforms == LET r == ImplSort IN
            /\ (r.err = "") <=> ~CycleReachable
            /\ (r.err = "") => ValidOrder(r.order)
            /\ (r.err = "self") => SelfDep
            /\ (r.err = "") => r.order = PostPlan          \* the plan order assumed by Ruler.tla is the implementation's
=============================================================================
