----------------------------- MODULE RulerObs -----------------------------
(***************************************************************************)
(* Observation mode: the recorded execution is NOT required to follow the  *)
(* actions of Ruler.  User-level events are applied, the logged disk state *)
(* is loaded at every return / crash, every event is folded into the ghost *)
(* record, and the same property predicates are evaluated.  Used to        *)
(* classify an execution that strict validation (RulerTrace) rejects: does *)
(* it break a property, or does it merely differ from the model?           *)
(***************************************************************************)
EXTENDS RulerTrace

Keep(e, fields) == [f \in fields \cap DOMAIN e |-> e[f]]

OUser ==
  /\ UNCHANGED scn
  /\ \/ Is("rules") /\ SetRules(E.rules)
     \/ Is("edit") /\ Edit(E.p, E.c)
     \/ Is("del") /\ (IF Has(ws, E.p) THEN DelFile(E.p) ELSE Edit(E.p, "?") /\ FALSE)
     \/ Is("delcache") /\ Has(cache, E.n) /\ DelCache(E.n)
     \/ Is("delruler") /\ rdir.root /\ DelRuler(E.what)
     \/ Is("env") /\ ChangeEnv(E.v)
     \/ Is("mv") /\ Has(ws, E.p) /\ Move(E.p, E.q)
     \/ Is("rmdir") /\ RmDir(E.d, SeqSet(E.ps))
     \/ Is("mkdir") /\ MkDir(E.d, SeqSet(E.ps))
     \/ Is("corrupt") /\ (E.what = "table" => rdir.tab = "ok") /\ (E.what # "table" => Has(hist, E.rid)) /\ Corrupt(E.what, E.rid)

OStart ==
  /\ l <= Len(Rec) /\ E.a \in {"build", "clean"} /\ l' = l + 1
  /\ UNCHANGED <<scn, ord, rules, env, vol, verdict>>
  /\ IF Has(E, "state") THEN LoadDisk(E.state) ELSE UNCHANGED <<disk, clock>>
  /\ ev' = Keep(E, {"a", "g", "serial"})
  /\ g' = Fold(g, ev', ws', cache', hist', fstab', rdir', {})

OEvent ==
  /\ l <= Len(Rec) /\ E.a \in {"step", "join", "deadlock"} /\ l' = l + 1
  /\ UNCHANGED <<scn, ord, rules, env, disk, clock, vol, verdict>>
  /\ ev' = E
  /\ g' = Fold(g, E, ws, cache, hist, fstab, rdir, {})

ORet ==
  /\ Is("ret") /\ UNCHANGED <<scn, ord, rules, env, vol>>
  /\ LoadDisk(E.state)
  /\ verdict' = E.verdict
  /\ ev' = Keep(E, {"a", "kind", "verdict", "errs", "stat", "nostat"})
  /\ g' = Fold(g, ev', ws', cache', hist', fstab', rdir', ScopeTargets(g.goal))

OCrash ==
  /\ Is("crash") /\ LoadDisk(E.state)
  /\ UNCHANGED <<scn, ord, rules, env, vol>> /\ verdict' = "none"
  /\ ev' = [a |-> "crash", inexec |-> E.inexec, taken |-> E.taken]
  /\ g' = Fold(g, ev', ws', cache', hist', fstab', rdir', {})

ONext == TReset \/ TLoad \/ OCrash \/ OUser \/ OStart \/ OEvent \/ ORet

ObsProps ==
  /\ Chk("C01_ScratchEqual", C01_ScratchEqual)
  /\ Chk("C02_AtMostOnce", C02_AtMostOnce) /\ Chk("C02_NoNeedlessRun", C02_NoNeedlessRun) /\ Chk("C02_RepeatIsNoOp", C02_RepeatIsNoOp)
  /\ Chk("C03_SourcesFinal", C03_SourcesFinal)
  /\ Chk("C04_ErrorsExact", C04_ErrorsExact) /\ Chk("C04_DependentsDoNotRun", C04_DependentsDoNotRun)
  /\ Chk("C04_OthersStillBuilt", C04_OthersStillBuilt) /\ Chk("C04_NothingRemembered", C04_NothingRemembered) /\ Chk("C04_TriedAgain", C04_TriedAgain)
  /\ Chk("C05_Returns", C05_Returns) /\ Chk("C05_ThreadPanics", T_C05_ThreadPanics)
  /\ Chk("C06_SameAsSerial", C06_SameAsSerial)
  /\ Chk("C07_ContentAddressed", (ev.a \in {"ret", "crash"}) => C07_ContentAddressed)
  /\ Chk("C08_NothingLost", (ev.a \in {"ret", "crash"}) => C08_NothingLost) /\ Chk("C08_NoOverwrite", T_C08_NoOverwrite)
  /\ Chk("C09_OnlyScopeTouched", C09_OnlyScopeTouched) /\ Chk("C09_Touched", T_C09_Touched) /\ Chk("C09_NoDirMade", C09_NoDirMade)
  /\ Chk("C10_CleanMovesToCache", C10_CleanMovesToCache) /\ Chk("C10_BuildBringsBack", C10_BuildBringsBack)
  /\ Chk("C11_CrashStateSane", C11_CrashStateSane) /\ Chk("C11_Recovers", C11_Recovers)
  /\ Chk("C12_InvalidRejected", C12_InvalidRejected) /\ Chk("C16_DamagedRejected", C16_DamagedRejected)
  /\ Chk("C17_ContradictionReported", C17_ContradictionReported) /\ Chk("C17_HistoryKept", C17_HistoryKept) /\ Chk("C17_OthersUnaffected", C17_OthersUnaffected)
  /\ Chk("C18_Twin", T_C18_Twin)
  /\ Chk("C20_StatusTruth", C20_StatusTruth) /\ Chk("C20_FailuresOnce", C20_FailuresOnce)
\* executions of the real binary on the real file system: the threads run freely, so there are no step events except the executions
\* logged by the commands themselves; what was taken from the cache or backed up is not observed, hence no C20_StatusTruth
ObsPropsReal ==
  /\ Chk("C01_ScratchEqual", C01_ScratchEqual)
  /\ Chk("C02_AtMostOnce", C02_AtMostOnce) /\ Chk("C02_NoNeedlessRun", C02_NoNeedlessRun) /\ Chk("C02_RepeatIsNoOp", C02_RepeatIsNoOp)
  /\ Chk("C03_SourcesFinal", C03_SourcesFinal)
  /\ Chk("C04_ErrorsExact", C04_ErrorsExact) /\ Chk("C04_DependentsDoNotRun", C04_DependentsDoNotRun)
  /\ Chk("C04_OthersStillBuilt", C04_OthersStillBuilt) /\ Chk("C04_NothingRemembered", C04_NothingRemembered) /\ Chk("C04_TriedAgain", C04_TriedAgain)
  /\ Chk("C05_Returns", C05_Returns)
  /\ Chk("C06_NoSpuriousFailure", C06_NoSpuriousFailure)
  /\ Chk("C07_ContentAddressed", (ev.a \in {"ret"}) => C07_ContentAddressed)
  /\ Chk("C08_NothingLost", (ev.a \in {"ret"}) => C08_NothingLost)
  /\ Chk("C09_OnlyScopeTouched", C09_OnlyScopeTouched) /\ Chk("C09_NoDirMade", C09_NoDirMade)
  /\ Chk("C10_CleanMovesToCache", C10_CleanMovesToCache) /\ Chk("C10_BuildBringsBack", C10_BuildBringsBack)
  /\ Chk("C12_InvalidRejected", C12_InvalidRejected) /\ Chk("C16_DamagedRejected", C16_DamagedRejected)
  /\ Chk("C17_ContradictionReported", C17_ContradictionReported) /\ Chk("C17_HistoryKept", C17_HistoryKept) /\ Chk("C17_OthersUnaffected", C17_OthersUnaffected)
  /\ Chk("C18_Twin", T_C18_Twin)
  /\ Chk("C20_FailuresOnce", C20_FailuresOnce) /\ Chk("C20_StatusReal", C20_StatusReal)
=============================================================================
