CONSTANTS
  Defects = {}
  ClockModel = "distinct"
  Ord0 <- mcOrd
  Menu <- mcMenu
  Init0 <- mcInit
  SrcVals = {"S0", "S1"}
  UserActs = {"build", "edit", "deltarget"}
  Goals = {""}
  MaxUser = 4
  FreeFrom = 4
  Script <- mcScriptStale
INIT GInit
NEXT GNext
VIEW EdgeView
CHECK_DEADLOCK FALSE
INVARIANTS EmitHeader EmitPrefix
