---- MODULE MC_d4 ----
EXTENDS MC
\* the shape of defect D4: a chain of copies  s -> p -> q  and an independent copy  s2 -> p2
mcOrd == <<"f", "p", "p2", "q", "s", "s2">>
mcMenu == << << Rl(<<"p">>, <<"s">>, "copy", "c1"), Rl(<<"p2">>, <<"s2">>, "copy", "c2"), Rl(<<"q">>, <<"p">>, "copy", "c3") >>,
             \* the same with an unrelated rule that always fails
             << Rl(<<"f">>, <<"s2">>, "fail", "c4"), Rl(<<"p">>, <<"s">>, "copy", "c1"), Rl(<<"p2">>, <<"s2">>, "copy", "c2"), Rl(<<"q">>, <<"p">>, "copy", "c3") >> >>
mcInit == << <<"s", "S0">>, <<"s2", "S1">> >>
mcScriptD4 == << <<"build", "">>, <<"edit", "s", "S1">>, <<"edit", "s2", "S0">>, <<"build", "">>, <<"clean", "p2">>, <<"edit", "s", "S0">>, <<"build", "q">> >>
\* the D4 history continued: the table left behind by the restoring build is used again
mcScriptD4long == mcScriptD4 \o << <<"build", "">>, <<"edit", "s", "S1">>, <<"build", "">>, <<"clean", "">>, <<"edit", "s", "S0">>, <<"build", "">> >>
mcScriptD4fail == << <<"rules", 2>> >> \o mcScriptD4long
\* the restoring build fails because of the unrelated rule; later builds run with the rule removed again
mcScriptD4fail2 == << <<"build", "">>, <<"edit", "s", "S1">>, <<"edit", "s2", "S0">>, <<"build", "">>, <<"clean", "p2">>, <<"edit", "s", "S0">>,
                      <<"rules", 2>>, <<"build", "">>, <<"rules", 1>>, <<"build", "">>, <<"edit", "s", "S1">>, <<"build", "">> >>
\* the restore goes into a path whose file the user has deleted (nothing is displaced there), while the table still remembers the deleted file
mcScriptD4del == << <<"build", "">>, <<"edit", "s", "S1">>, <<"edit", "s2", "S0">>, <<"build", "">>, <<"clean", "p2">>, <<"del", "p">>, <<"edit", "s", "S0">>, <<"build", "q">>,
                    <<"build", "">>, <<"edit", "s", "S1">>, <<"build", "">>, <<"del", "p">>, <<"del", "q">>, <<"edit", "s", "S0">>, <<"build", "">> >>
====
