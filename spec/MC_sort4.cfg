CONSTANTS
  T <- mcT
  Fixed = TRUE
INIT Init
NEXT Next
INVARIANT Conforms
CHECK_DEADLOCK FALSE
