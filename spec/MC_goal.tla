---- MODULE MC_goal ----
EXTENDS MC
\* the order in which the rules are found differs between `build` and `build z`: c (found first in a build of everything) needs only q, the
\* later of z's two generated sources; what is remembered for z must not depend on the kind of build that recorded it
mcOrd == <<"a", "b", "c", "p", "q", "z">>
mcMenu == << << Rl(<<"c">>, <<"q">>, "fn", "c4"), Rl(<<"p">>, <<"a">>, "copy", "c1"), Rl(<<"q">>, <<"b">>, "copy", "c2"), Rl(<<"z">>, <<"p", "q">>, "fn", "c3") >> >>
mcInit == << <<"a", "S0">>, <<"b", "S0">> >>
mcScriptAllGoal == << <<"build", "">>, <<"build", "z">>, <<"clean", "z">>, <<"build", "">>, <<"build", "z">>, <<"edit", "a", "S1">>, <<"build", "z">>, <<"build", "">>, <<"build", "c">> >>
====
