---- MODULE Sha256 ----
(* SHA-256 (FIPS 180-4) as a TLA+ operator that TLC can evaluate.                                                   *)
(* TLC's integers are 32-bit signed, so a 32-bit word is a pair <<hi, lo>> of 16-bit naturals; all arithmetic below    *)
(* stays under 2^18.  A message is a sequence of bytes (0..255); the digest is a sequence of 32 bytes.                *)
(* This module is the specification half of property C15 ("content hashes are true SHA-256 of the bytes"): the real  *)
(* TicketFactory is run on recorded inputs and TicketTrace.tla compares its output with Digest(bytes).                 *)
EXTENDS Naturals, Sequences, SequencesExt, Bitwise

M16 == 65536

WAdd(a, b) == LET lo == a[2] + b[2] IN << (a[1] + b[1] + lo \div M16) % M16, lo % M16 >>
WXor(a, b) == << a[1] ^^ b[1], a[2] ^^ b[2] >>
WAnd(a, b) == << a[1] & b[1], a[2] & b[2] >>
WNot(a)    == << 65535 - a[1], 65535 - a[2] >>

\* rotate / shift right by n, 0 < n < 32
Rotr(x, n) == LET y == IF n >= 16 THEN << x[2], x[1] >> ELSE x
                  k == n % 16
                  p == 2 ^ k
                  q == 2 ^ (16 - k)
              IN IF k = 0 THEN y
                 ELSE << y[1] \div p + (y[2] % p) * q, y[2] \div p + (y[1] % p) * q >>
Shr(x, n)  == LET k == n % 16
                  p == 2 ^ k
                  q == 2 ^ (16 - k)
              IN IF n >= 16 THEN << 0, x[1] \div p >>
                 ELSE << x[1] \div p, x[2] \div p + (x[1] % p) * q >>

Ch(x, y, z)  == WXor(WAnd(x, y), WAnd(WNot(x), z))
Maj(x, y, z) == WXor(WXor(WAnd(x, y), WAnd(x, z)), WAnd(y, z))
BSig0(x) == WXor(WXor(Rotr(x, 2), Rotr(x, 13)), Rotr(x, 22))
BSig1(x) == WXor(WXor(Rotr(x, 6), Rotr(x, 11)), Rotr(x, 25))
SSig0(x) == WXor(WXor(Rotr(x, 7), Rotr(x, 18)), Shr(x, 3))
SSig1(x) == WXor(WXor(Rotr(x, 17), Rotr(x, 19)), Shr(x, 10))

\* first 32 bits of the fractional parts of the cube roots of the first 64 primes
K == <<<<17034,12184>>, <<28983,17553>>, <<46528,64463>>, <<59829,56229>>,
      <<14678,49755>>, <<23025,4593>>, <<37439,33444>>, <<43804,24277>>,
      <<55303,43672>>, <<4739,23297>>, <<9265,34238>>, <<21772,32195>>,
      <<29374,23924>>, <<32990,45566>>, <<39900,1703>>, <<49563,61812>>,
      <<58523,27073>>, <<61374,18310>>, <<4033,40390>>, <<9228,41420>>,
      <<11753,11375>>, <<19060,33962>>, <<23728,43484>>, <<30457,35034>>,
      <<38974,20818>>, <<43057,50797>>, <<45059,10184>>, <<48985,32711>>,
      <<50912,3059>>, <<54695,37191>>, <<1738,25425>>, <<5161,10599>>,
      <<10167,2693>>, <<11803,8504>>, <<19756,28156>>, <<21304,3347>>,
      <<25866,29524>>, <<30314,2747>>, <<33218,51502>>, <<37490,11397>>,
      <<41663,59553>>, <<43034,26187>>, <<49739,35696>>, <<51052,20899>>,
      <<53650,59417>>, <<54937,1572>>, <<62478,13701>>, <<4202,41072>>,
      <<6564,49430>>, <<7735,27656>>, <<10056,30540>>, <<13488,48309>>,
      <<14620,3251>>, <<20184,43594>>, <<23452,51791>>, <<26670,28659>>,
      <<29839,33518>>, <<30885,25455>>, <<33992,30740>>, <<36039,520>>,
      <<37054,65530>>, <<42064,27883>>, <<48889,41975>>, <<50801,30962>>>>
\* first 32 bits of the fractional parts of the square roots of the first 8 primes
H0 == <<<<27145,58983>>, <<47975,44677>>, <<15470,62322>>, <<42319,62778>>,
        <<20750,21119>>, <<39685,26764>>, <<8067,55723>>, <<23520,52505>>>>

\* 5.1.1 padding: 0x80, zeros up to 56 mod 64, the bit length as a 64-bit big-endian number (messages here are < 2^28 bytes)
Zeros(n) == [i \in 1..n |-> 0]
Pad(m) == LET n == Len(m)
              z == (119 - (n % 64)) % 64          \* number of zero bytes: n + 1 + z = 56 (mod 64)
              bits == n * 8
          IN m \o <<128>> \o Zeros(z) \o <<0, 0, 0, 0>>
               \o << bits \div 16777216, (bits \div 65536) % 256, (bits \div 256) % 256, bits % 256 >>

\* the 16 big-endian words of block b (1-based) of the padded message p
BlockWords(p, b) == [i \in 1..16 |-> LET o == (b - 1) * 64 + (i - 1) * 4 IN << p[o + 1] * 256 + p[o + 2], p[o + 3] * 256 + p[o + 4] >>]

\* 6.2.2 step 1: message schedule (FoldLeft of SequencesExt is evaluated strictly by TLC, one step after the other)
Sched(words) == FoldLeft(LAMBDA w, t : Append(w, WAdd(WAdd(SSig1(w[t - 2]), w[t - 7]), WAdd(SSig0(w[t - 15]), w[t - 16]))),
                         words, [i \in 1..48 |-> i + 16])

\* 6.2.2 step 3: one round on the working variables v = <<a,b,c,d,e,f,g,h>>
Round(v, kt, wt) == LET t1 == WAdd(WAdd(WAdd(v[8], BSig1(v[5])), WAdd(Ch(v[5], v[6], v[7]), kt)), wt)
                        t2 == WAdd(BSig0(v[1]), Maj(v[1], v[2], v[3]))
                    IN << WAdd(t1, t2), v[1], v[2], v[3], WAdd(v[4], t1), v[5], v[6], v[7] >>

Compress(h, words) == LET w == Sched(words)
                          v == FoldLeft(LAMBDA u, t : Round(u, K[t], w[t]), h, [i \in 1..64 |-> i])
                      IN [i \in 1..8 |-> WAdd(h[i], v[i])]

Blocks(p) == FoldLeft(LAMBDA h, b : Compress(h, BlockWords(p, b)), H0, [i \in 1..(Len(p) \div 64) |-> i])

WordBytes(x) == << x[1] \div 256, x[1] % 256, x[2] \div 256, x[2] % 256 >>
Digest(m) == LET p == Pad(m)
                 h == Blocks(p)
             IN WordBytes(h[1]) \o WordBytes(h[2]) \o WordBytes(h[3]) \o WordBytes(h[4])
                \o WordBytes(h[5]) \o WordBytes(h[6]) \o WordBytes(h[7]) \o WordBytes(h[8])
====
