---- MODULE MC_base62 ----
(* The text form is a bijection - checked exhaustively on the scaled-down instance NB = 2 bytes, ND = 3 digits          *)
(* (62^2 < 256^2 <= 62^3, as 62^42 < 256^32 <= 62^43) with the operators of Base62.tla that judge the real code:        *)
(*  - every value decodes back from its text form (all 65 536 values);                                                   *)
(*  - every string of ND characters over the 62 digits and four foreign characters (all 287 496) is accepted exactly      *)
(*    when it is the text form of a value, and then decodes to that value; strings of other lengths are rejected.         *)
(* Also: the SHA-256 padding of Sha256.tla for every length 0..300, and the FIPS 180-4 example digests.                  *)
EXTENDS Sha256, Base62, TLC
NB == 2
ND == 3
Alphabet == {CharOf(d) : d \in 0..61} \cup {45, 47, 95, 304}     \* - / _ and U+0130 (low byte '0')
VARIABLES kind, x
Init == \/ kind = "value" /\ x \in 0..65535
        \/ kind = "string" /\ x \in [1..ND -> Alphabet]
        \/ kind = "short" /\ x \in [1..(ND - 1) -> Alphabet]
        \/ kind = "pad" /\ x \in 0..300
Next == UNCHANGED <<kind, x>>
Bytes(v) == << v % 256, v \div 256 >>
Num(le) == le[1] + 256 * le[2]
StrVal(s) == DigitOf(s[1]) + 62 * DigitOf(s[2]) + 3844 * DigitOf(s[3])
RoundTrip == kind = "value" => LET t == Encode(Bytes(x), ND) d == Decode(t, ND, NB, ND) IN
                               /\ Len(t) = ND /\ \A i \in 1..ND : DigitOf(t[i]) < 62
                               /\ d.ok /\ d.le = Bytes(x)
                               /\ StrVal(t) = x
Exact == kind = "string" => LET d == Decode(x, ND, NB, ND)
                                valid == (\A i \in 1..ND : DigitOf(x[i]) < 62) /\ StrVal(x) < 65536 IN
                            /\ d.ok <=> valid
                            /\ d.ok => Num(d.le) = StrVal(x) /\ Encode(d.le, ND) = x
Short == kind = "short" => ~Decode(x, ND - 1, NB, ND).ok
Padding == kind = "pad" => LET p == Pad(Zeros(x)) n == Len(p) IN
                           /\ n % 64 = 0 /\ n >= x + 9 /\ n < x + 9 + 64
                           /\ p[x + 1] = 128 /\ \A i \in (x + 2)..(n - 8) : p[i] = 0
                           /\ SubSeq(p, n - 7, n - 4) = <<0, 0, 0, 0>>
                           /\ p[n - 3] * 16777216 + p[n - 2] * 65536 + p[n - 1] * 256 + p[n] = 8 * x
\* FIPS 180-4 / NIST example vectors
Hex(s) == s
Abc == <<97, 98, 99>>
Two == <<97,98,99,100,98,99,100,101,99,100,101,102,100,101,102,103,101,102,103,104,102,103,104,105,103,104,105,106,104,105,106,107,
         105,106,107,108,106,107,108,109,107,108,109,110,108,109,110,111,109,110,111,112,110,111,112,113>>   \* "abcdbcdecdefdefg...nopq"
ASSUME Digest(Abc) = <<186,120,22,191,143,1,207,234,65,65,64,222,93,174,34,35,176,3,97,163,150,23,122,156,180,16,255,97,242,0,21,173>>
ASSUME Digest(<<>>) = <<227,176,196,66,152,252,28,20,154,251,244,200,153,111,185,36,39,174,65,228,100,155,147,76,164,149,153,27,120,82,184,85>>
ASSUME Digest(Two) = <<36,141,106,97,210,6,56,184,229,192,38,147,12,62,96,57,163,60,228,89,100,255,33,103,246,236,237,212,25,219,6,193>>
====
