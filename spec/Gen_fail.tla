---- MODULE Gen_fail ----
EXTENDS Gen, MC_fail
====
