---- MODULE Gen_env ----
EXTENDS Gen, MC_env
====
