---- MODULE Gen_goal ----
EXTENDS Gen, MC_goal
====
