CONSTANTS
  Defects = {}
  ClockModel = "distinct"
  Ord0 <- mcOrd
  Menu <- mcMenu
  Init0 <- mcInit
  SrcVals = {"S0", "S1"}
  UserActs = {"edit", "build", "clean", "rules", "tamper", "deltarget", "delcache"}
  Goals = {"", "o.s", "d"}
  MaxUser = 7
  FreeFrom = 0
  Script <- NoScript
INIT GInit
NEXT GNext
CHECK_DEADLOCK FALSE
INVARIANTS EmitHeader EmitDone
