CONSTANTS
  Defects = {}
  ClockModel = "distinct"
INIT TInit
NEXT ONext
INVARIANT ObsPropsReal
POSTCONDITION Accepted
CHECK_DEADLOCK FALSE
