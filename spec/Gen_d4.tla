---- MODULE Gen_d4 ----
EXTENDS Gen, MC_d4
CexSentTruth == Cex("Aux_SentTruth", Aux_SentTruth)
====
