CONSTANTS
  Defects = {}
  ClockModel = "distinct"
INIT TInit
NEXT ONext
INVARIANT ObsProps
POSTCONDITION Accepted
CHECK_DEADLOCK FALSE
