------------------------------- MODULE RealFs -------------------------------
(***************************************************************************)
(* C10 on the real file system: one record = up-to-date targets, a clean   *)
(* (with some goal), a build (with some goal), observed with the real      *)
(* `ruler` binary and shell commands.  pre / mid / post list the state of  *)
(* every target before the clean, after it and after the build.            *)
(***************************************************************************)
EXTENDS Naturals, Sequences, FiniteSets, TLC, Json, IOUtils
SeqSet(s) == {s[i] : i \in DOMAIN s}
Allowed(rec) ==
  LET I == DOMAIN rec.paths
      InC(i) == rec.paths[i] \in SeqSet(rec.clean_scope)
      InB(i) == rec.paths[i] \in SeqSet(rec.build_scope)
      Pairwise == \A i, j \in I : i # j => rec.pre[i].sha # rec.pre[j].sha
  IN rec.first_build_ok =>
     /\ \A i \in I : rec.pre[i].exists
     /\ rec.clean_err = "" /\ rec.cache_named_ok
     /\ \A i \in I : IF InC(i) THEN ~rec.mid[i].exists /\ rec.pre[i].sha \in SeqSet(rec.cache)
                     ELSE rec.mid[i] = rec.pre[i]
     /\ rec.build_err = ""
     /\ \A i \in I : IF InB(i) THEN /\ rec.post[i].exists /\ rec.post[i].sha = rec.pre[i].sha
                                    /\ Pairwise => rec.post[i].x = rec.pre[i].x
                     ELSE rec.post[i] = rec.mid[i]
     /\ Pairwise => rec.runs_in_rebuild = 0
=============================================================================
