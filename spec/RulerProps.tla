---------------------------- MODULE RulerProps ----------------------------
(***************************************************************************)
(* The given properties as state predicates over (disk, ev, g).  Each is   *)
(* evaluated by TLC on model states (the MC modules), on the states of strictly      *)
(* validated implementation traces (RulerTrace) and on observed traces     *)
(* (RulerObs).  Names: <property id>_<aspect>; lib/props.py maps them.     *)
(***************************************************************************)
EXTENDS Ruler

Distinct == ClockModel = "distinct"
AtRet(k) == ev.a = "ret" /\ ev.kind = k
Graded == AtRet("build") /\ ev.verdict \in {"ok", "fail"} /\ RulesSane
Pre == g.pre
ScopeI == ScopeIdx(g.goal)
Scope == ScopeTargets(g.goal)
RuleById(rid) == rules[CHOOSE k \in DOMAIN rules : RuleId(rules[k]) = rid]
KnownRid(rid) == \E k \in DOMAIN rules : RuleId(rules[k]) = rid
ExecRids == {x.rid : x \in g.execs}
CountIn(seq, e) == Cardinality({j \in DOMAIN seq : seq[j] = e})
HistOf(H, rid) == IF Has(H, rid) THEN H[rid] ELSE EmptyF
SameFn(f, h) == DOMAIN f = DOMAIN h /\ \A q \in DOMAIN f : f[q] = h[q]

\* rules whose output depends on the undeclared input, and everything downstream of them
RECURSIVE Tainted(_)
Tainted(p) == IsTarget(p) /\ LET r == Producer(p) IN r.mask # <<>> \/ \E j \in DOMAIN r.src : Tainted(r.src[j])
EnvFreeScope == \A k \in ScopeI : rules[k].mask = <<>>

\* a rule with a target in a directory the user has removed cannot succeed: the restore from the cache fails (a cache
\* malfunction is reported, no command runs), or the command runs and cannot write
NoDirRule(r) == SeqSet(r.tg) \cap rdir.nodir # {}

\* from-scratch evaluation of the current rules on the current leaves
RECURSIVE Scratch(_)
Scratch(p) ==
  IF ~IsTarget(p) THEN (IF Has(ws, p) THEN ws[p].c ELSE "MISSING")
  ELSE LET r == Producer(p)  sc == [j \in DOMAIN r.src |-> Scratch(r.src[j])] IN
       IF r.kind = "fail" \/ r.pf \/ r.omit # 0 \/ NoDirRule(r) \/ \E j \in DOMAIN sc : sc[j] \in {"MISSING", "FAILS"} THEN "FAILS"
       ELSE Out(r, SubIdx(p), sc, env)

\* which nodes can be produced in this build, declaratively (leaves are looked up in the pre-state)
RECURSIVE Fine(_)
Fine(p) == IF ~IsTarget(p) THEN Has(Pre.ws, p)
           ELSE LET r == Producer(p) IN r.kind # "fail" /\ ~r.pf /\ r.omit = 0 /\ ~NoDirRule(r) /\ \A j \in DOMAIN r.src : Fine(r.src[j])
Reached(r) == \A j \in DOMAIN r.src : Fine(r.src[j])
Fails(r) == Reached(r) /\ (r.kind = "fail" \/ r.pf \/ r.omit # 0 \/ NoDirRule(r))
ErrOf(r) == IF NoDirRule(r) /\ RuleId(r) \notin {x.rid : x \in g.execs} THEN <<"ResolutionError", "CacheMalfunction", "">>
            ELSE IF r.kind = "fail" \/ r.pf \/ NoDirRule(r) THEN <<"CommandExecutedButErrored", "", "">>
            ELSE <<"TargetFileNotGenerated", r.tg[r.omit], RuleId(r)>>
MissingLeaves == ScopeLeaves(g.goal) \ DOMAIN Pre.ws
ExpErrSet == {<<"FileNotFound", p, "">> : p \in MissingLeaves} \cup {ErrOf(rules[k]) : k \in {k \in ScopeI : Fails(rules[k])}}
ExpCount(e) == Cardinality({p \in MissingLeaves : e = <<"FileNotFound", p, "">>})
               + Cardinality({k \in ScopeI : Fails(rules[k]) /\ ErrOf(rules[k]) = e})

(* ---------------- C01 ------------------------------------------------------ *)
C01_ScratchEqual ==
  (Graded /\ ev.verdict = "ok" /\ Distinct) =>
     \A p \in Scope : Has(ws, p) /\ (Tainted(p) \/ ws[p].c = Scratch(p))

(* ---------------- C02 ------------------------------------------------------ *)
C02_AtMostOnce == ~g.dup

SrcNow(r) == [j \in DOMAIN r.src |-> IF Has(ws, r.src[j]) THEN ws[r.src[j]].c ELSE "MISSING"]
HoldsPre(p, w) == Has(Pre.ws, p) /\ Pre.ws[p].c = w
CacheHas(w) == Has(Pre.cache, w) /\ Pre.cache[w].c = w
Competes(k, i, w) == \E k2 \in ScopeI : \E j \in DOMAIN rules[k2].tg :
                        /\ <<k2, j>> # <<k, i>>
                        /\ ~HoldsPre(rules[k2].tg[j], w)
                        /\ \/ \E e2 \in g.ever0 : e2.rid = RuleId(rules[k2]) /\ e2.outs[j] = w
                           \/ \E sh \in DOMAIN HistOf(Pre.hist, RuleId(rules[k2])) : Pre.hist[RuleId(rules[k2])][sh][j] = w
MustNotRun(k) ==
  LET r == rules[k] IN
  /\ Reached(r)
  /\ \E e \in g.ever0 : /\ e.rid = RuleId(r) /\ e.sc = SrcNow(r)
                        /\ \A i \in DOMAIN r.tg : \/ HoldsPre(r.tg[i], e.outs[i])
                                                  \/ (CacheHas(e.outs[i]) /\ ~Competes(k, i, e.outs[i]))
C02_NoNeedlessRun ==
  (Graded /\ Distinct /\ EnvFreeScope) => \A k \in ScopeI : MustNotRun(k) => RuleId(rules[k]) \notin ExecRids

\* nothing changed since a successful build of these targets (possibly cleaned in between: C10)
UtdScope == Scope # {} /\ Scope \subseteq DOMAIN g.utd0
InPlace == \A p \in Scope : HoldsPre(p, g.utd0[p].c)
\* one cache file cannot serve two restores, and it carries one permission
PairwiseDifferent == \A p \in Scope : \A q \in DOMAIN g.utd0 : p # q => g.utd0[p].c # g.utd0[q].c
RestoredContent == ev.verdict = "ok" /\ \A p \in Scope : Has(ws, p) /\ ws[p].c = g.utd0[p].c
RestoredAsBefore == RestoredContent /\ \A p \in Scope : ws[p].x = g.utd0[p].x
C02_RepeatIsNoOp ==
  (AtRet("build") /\ UtdScope /\ InPlace) =>
     /\ RestoredAsBefore /\ g.execs = {}
     /\ DOMAIN ws = DOMAIN Pre.ws /\ \A p \in DOMAIN ws : ws[p] = Pre.ws[p]

(* ---------------- C03 ------------------------------------------------------ *)
C03_SourcesFinal ==
  (AtRet("build") /\ RulesSane) => \A x \in g.execs : KnownRid(x.rid) =>
     LET r == RuleById(x.rid)  seen == x.seen IN
     \A j \in DOMAIN r.src : /\ seen[j] # "MISSING"
                             /\ Has(ws, r.src[j]) /\ seen[j] = ws[r.src[j]].c
                             /\ (Distinct /\ ~Tainted(r.src[j]) => seen[j] = Scratch(r.src[j]))
\* model / strict mode: the producer of every source has finished its own work before the command starts
C03_ProducersDone ==
  mode = "build" => \A t \in Tids : (~IsLeafT(t) /\ tl[t].pc = "exec") =>
     \A j \in DOMAIN RuleOf(t).src :
        LET u == IF RuleOf(t).src[j] \in SeqSet(plan.leaves) THEN IdxOf(plan.leaves, RuleOf(t).src[j])
                 ELSE NL + (CHOOSE k \in DOMAIN plan.nodes : RuleOf(t).src[j] \in SeqSet(plan.nodes[k].tg)) IN
        tl[u].result = "ok" /\ tl[u].pc \in {"send", "done"}

(* ---------------- C04 ------------------------------------------------------ *)
C04_ErrorsExact ==
  (Graded /\ EnvFreeScope) =>
     /\ (ev.verdict = "ok") = (ExpErrSet = {})
     /\ \A e \in SeqSet(ev.errs) \cup ExpErrSet : CountIn(ev.errs, e) = ExpCount(e)
C04_DependentsDoNotRun ==
  Graded => \A x \in g.execs : KnownRid(x.rid) => Reached(RuleById(x.rid))
C04_OthersStillBuilt ==
  (Graded /\ ev.verdict = "fail" /\ Distinct) =>
     \A p \in Scope : (Fine(p) /\ ~Tainted(p)) => Has(ws, p) /\ ws[p].c = Scratch(p)
C04_NothingRemembered ==
  Graded => /\ \A k \in ScopeI : Fails(rules[k]) => SameFn(HistOf(hist, RuleId(rules[k])), HistOf(Pre.hist, RuleId(rules[k])))
            \* every new history entry stands for a successful execution of this invocation
            /\ \A rid \in DOMAIN hist : \A sh \in DOMAIN hist[rid] :
                  \/ (Has(Pre.hist, rid) /\ Has(Pre.hist[rid], sh) /\ Pre.hist[rid][sh] = hist[rid][sh])
                  \/ \E x \in g.execs : x.rid = rid /\ x.ok /\ SrcHash(x.seen) = sh /\ x.outs = hist[rid][sh]
C04_TriedAgain ==
  (Graded /\ EnvFreeScope) => \A k \in ScopeI : (Fails(rules[k]) /\ ~NoDirRule(rules[k])) => RuleId(rules[k]) \in ExecRids

(* ---------------- C05 ------------------------------------------------------ *)
C05_Returns == ev.a = "ret" => ev.verdict \notin {"panic", "deadlock", "hang", "err:Weird"}
C05_NoChannelError == \A t \in DOMAIN tl : tl[t].result \notin {"SenderError", "ReceiverError"}
C05_NoDeadlock == mode # "idle" => (MainEnabled \/ \E t \in DOMAIN tl : EnabledT(t))

(* ---------------- C06 ------------------------------------------------------ *)
WsContents == [p \in DOMAIN ws |-> ws[p].c]
\* (not judged while a workspace directory is removed: no history the property quantifies over removes one, and a rule that
\* cannot write its target then fails or not depending on who gets the one cache file both need)
C06_SameAsSerial ==
  (AtRet("build") /\ g.expect # <<>> /\ rdir.nodir = {}) =>
     /\ g.expect.verdict = ev.verdict
     /\ \A e \in SeqSet(ev.errs) \cup SeqSet(g.expect.errs) : CountIn(ev.errs, e) = CountIn(g.expect.errs, e)
     /\ SameFn(g.expect.ws, WsContents)

\* where the threads run freely (the real binary) there is no serial reference run; what can be said of one observed schedule is that
\* it reports no failure that the schedule-independent prediction does not contain ("independent rules that happen to produce or need
\* byte-identical files never make each other fail") and, when the build succeeds, that every target holds the predicted content
C06_NoSpuriousFailure ==
  (Graded /\ EnvFreeScope /\ rdir.nodir = {}) =>
     /\ \A e \in SeqSet(ev.errs) : CountIn(ev.errs, e) <= ExpCount(e)
     /\ (ev.verdict = "ok" /\ Distinct) => \A p \in Scope : Has(ws, p) /\ ws[p].c = Scratch(p)

(* ---------------- C07 ------------------------------------------------------ *)
C07_ContentAddressed == Distinct => \A n \in DOMAIN cache : cache[n].c = n

(* ---------------- C08 ------------------------------------------------------ *)
PreContents == {Pre.ws[p].c : p \in AllTargets \cap DOMAIN Pre.ws} \cup {Pre.cache[n].c : n \in DOMAIN Pre.cache}
NowContents == {ws[p].c : p \in AllTargets \cap DOMAIN ws} \cup {cache[n].c : n \in DOMAIN cache}
\* what a user's command may have overwritten: targets of rules whose output is not a function of the declared
\* sources, and (at a crash instant) the targets of the command that was running
ExemptContents == {Pre.ws[p].c : p \in {q \in AllTargets \cap DOMAIN Pre.ws : RulesSane /\ Tainted(q)}}
                  \cup (IF ev.a = "crash" /\ Has(ev, "inexec") /\ KnownRid(ev.inexec)
                        THEN {Pre.ws[p].c : p \in SeqSet(RuleById(ev.inexec).tg) \cap DOMAIN Pre.ws}
                             \cup {x[2] : x \in {y \in g.tk \cup (IF Has(ev, "taken") THEN SeqSet(ev.taken) ELSE {}) :
                                                     y[1] \in SeqSet(RuleById(ev.inexec).tg)}}     \* what ruler had just restored there
                        ELSE {})
\* the property assumes deterministic commands: an invocation in which a command with an undeclared input ran is not judged
NonDetRan == \E x \in g.execs : KnownRid(x.rid) /\ RuleById(x.rid).mask # <<>>
C08_NothingLost ==
  (Distinct /\ ~NonDetRan /\ (g.kind # "none" \/ ev.a \in {"ret", "crash"})) => PreContents \subseteq (NowContents \cup ExemptContents)

(* ---------------- C09 ------------------------------------------------------ *)
C09_OnlyScopeTouched ==
  ev.a = "ret" => \A p \in ((DOMAIN ws) \cup (DOMAIN Pre.ws)) \ Scope : Has(ws, p) /\ Has(Pre.ws, p) /\ ws[p] = Pre.ws[p]

\* ruler makes no directory in the workspace (a removed directory stays removed until the user makes it again)
C09_NoDirMade == ev.a = "ret" => rdir.nodir = Pre.nodir

(* ---------------- C10 ------------------------------------------------------ *)
\* one cache file carries one permission: a file that shares its entry (an equal file cleaned with it, or an entry that was
\* already there) may come back with the other file's permission; the permission is judged where the entry is the file's alone
AloneAtClean(p) == /\ ~Has(Pre.cache, Pre.ws[p].c)
                   /\ \A q \in (AllTargets \cap DOMAIN Pre.ws) \ {p} : Pre.ws[q].c # Pre.ws[p].c
C10_CleanMovesToCache ==
  (AtRet("clean") /\ ev.verdict = "cleaned") =>
     \A p \in Scope : /\ ~Has(ws, p)
                      /\ Has(Pre.ws, p) => \E n \in DOMAIN cache : (cache[n].c = Pre.ws[p].c) /\ (Distinct => n = Pre.ws[p].c)   \* and, the cache being content-addressed, under its own name
                                                                    /\ (AloneAtClean(p) => cache[n].x = Pre.ws[p].x)
\* a target comes back with the permission its cache entry carries (a target still in place keeps its own)
RestoredPerm == \A p \in Scope : LET c == g.utd0[p].c IN
                   IF HoldsPre(p, c) THEN ws[p].x = Pre.ws[p].x ELSE CacheHas(c) => ws[p].x = Pre.cache[c].x
C10_BuildBringsBack ==
  (AtRet("build") /\ UtdScope /\ ~InPlace) => RestoredContent /\ (PairwiseDifferent => (RestoredPerm /\ g.execs = {}))

(* ---------------- C11 ------------------------------------------------------ *)
C11_CrashStateSane == ev.a = "crash" => rdir.tab # "torn" /\ rdir.htorn = {}
C11_Recovers ==
  (AtRet("build") /\ g.sc0 /\ RulesSane) =>
     /\ ev.verdict \in {"ok", "fail", "err:TopologicalSortFailed"}
     /\ (ev.verdict = "err:TopologicalSortFailed") = ~SortOK(g.goal)
     /\ (EnvFreeScope /\ ExpErrSet = {} /\ SortOK(g.goal)) => ev.verdict = "ok"
     /\ Distinct => \A p \in Scope : (Fine(p) /\ ~Tainted(p)) => Has(ws, p) /\ ws[p].c = Scratch(p)

(* ---------------- C12 / C16, end to end -------------------------------------- *)
\* an invocation is refused exactly when dependency analysis must fail or a state file it has to read is damaged
DamagedNeeded == Pre.tab = "torn" \/ (ev.kind = "build" /\ Pre.tab # "torn" /\ SortOK(g.goal)
                                       /\ \E k \in ScopeI : RuleId(rules[k]) \in Pre.htorn)
C12_InvalidRejected == (ev.a = "ret" /\ Pre.tab # "torn") => (ev.verdict = "err:TopologicalSortFailed") = ~SortOK(g.goal)
C16_DamagedRejected == ev.a = "ret" => (ev.verdict \in {"err:FailedToReadCurrentFileStates", "err:HistoryError"}) = DamagedNeeded

(* ---------------- C17 ------------------------------------------------------ *)
DiffIdx(a, b) == {i \in DOMAIN a : a[i] # b[i]}
DiffPaths(r, d) == JoinS([k \in 1..Cardinality(d) |-> r.tg[CHOOSE i \in d : Cardinality({j \in d : j < i}) = k - 1]], ",")
C17_ContradictionReported ==
  (AtRet("build") /\ RulesSane /\ Distinct) =>
     /\ \A x \in g.execs : (x.ok /\ KnownRid(x.rid) /\ "MISSING" \notin SeqSet(x.outs)) =>
          LET r == RuleById(x.rid) IN
          \A e \in g.ever0 : (e.rid = x.rid /\ e.sc = x.seen /\ e.outs # x.outs) =>
             /\ <<"Contradiction", DiffPaths(r, DiffIdx(e.outs, x.outs)), x.rid>> \in SeqSet(ev.errs)
             /\ SameFn(HistOf(hist, x.rid), HistOf(Pre.hist, x.rid))
     /\ \A j \in DOMAIN ev.errs : ev.errs[j][1] = "Contradiction" =>
          \E x \in g.execs : /\ x.rid = ev.errs[j][3] /\ x.ok
                             /\ LET sh == SrcHash(x.seen) IN
                                       \/ \E e \in g.ever0 : e.rid = x.rid /\ e.sc = x.seen /\ e.outs # x.outs
                                       \/ (Has(Pre.hist, x.rid) /\ Has(Pre.hist[x.rid], sh) /\ Pre.hist[x.rid][sh] # x.outs)
\* "builds of other rules are unaffected": everything that does not depend on the undeclared input is still brought up to date
C17_OthersUnaffected ==
  (Graded /\ Distinct /\ \E j \in DOMAIN ev.errs : ev.errs[j][1] = "Contradiction") =>
     \A p \in Scope : (Fine(p) /\ ~Tainted(p)) => Has(ws, p) /\ ws[p].c = Scratch(p)
C17_HistoryKept ==
  Graded => \A rid \in DOMAIN Pre.hist : Has(hist, rid) /\ \A sh \in DOMAIN Pre.hist[rid] :
               Has(hist[rid], sh) /\ hist[rid][sh] = Pre.hist[rid][sh]

(* ---------------- C18 (auxiliary, model level) ----------------------------- *)
\* whenever the shortcut would apply to a file it yields that file's true hash
Aux_TableTruth == mode = "idle" => \A p \in (DOMAIN fstab) \cap (DOMAIN ws) : fstab[p].m = ws[p].m => fstab[p].h = ws[p].c
Aux_SentTruth == mode = "build" => \A t \in Tids : (~IsLeafT(t) /\ tl[t].pc = "send") =>
                    \A i \in DOMAIN RuleOf(t).tg : tl[t].fsv[i] = ws[RuleOf(t).tg[i]].c

(* ---------------- C20 ------------------------------------------------------ *)
Lines(p) == Cardinality({j \in DOMAIN ev.stat : ev.stat[j][1] = p})
StatusFor(p) == ev.stat[CHOOSE j \in DOMAIN ev.stat : ev.stat[j][1] = p][2]
Contradicted(r) == \E j \in DOMAIN ev.errs : ev.errs[j][1] = "Contradiction" /\ ev.errs[j][3] = RuleId(r)
OkRule(k) == k \in ScopeI /\ Reached(rules[k]) /\ ~Fails(rules[k]) /\ ~Contradicted(rules[k])
\* "each failure is reported once": the same judgement as C04_ErrorsExact, on the reported list
C20_FailuresOnce ==
  (Graded /\ EnvFreeScope) => \A e \in SeqSet(ev.errs) \cup ExpErrSet : CountIn(ev.errs, e) = ExpCount(e)
C20_StatusTruth ==
  (Graded /\ EnvFreeScope) =>
     /\ \A k \in DOMAIN rules : \A i \in DOMAIN rules[k].tg :
          LET p == rules[k].tg[i]  ran == RuleId(rules[k]) \in ExecRids IN
          IF OkRule(k)
          THEN /\ Lines(p) = 1
               /\ (StatusFor(p) = "Built") = ran
               /\ (StatusFor(p) = "Recovered") = (~ran /\ p \in g.takes)
               /\ (StatusFor(p) = "Up-to-date") = (~ran /\ p \notin g.takes /\ p \notin g.baks)
          ELSE Lines(p) = 0
     /\ \A j \in DOMAIN ev.stat : ev.stat[j][1] \in AllTargets
\* what can be judged of the status lines when takes and back-ups are not observed (the real binary on the real file system)
C20_StatusReal ==
  (Graded /\ EnvFreeScope /\ ~Has(ev, "nostat")) =>
     /\ \A k \in DOMAIN rules : \A i \in DOMAIN rules[k].tg :
          LET p == rules[k].tg[i]  ran == RuleId(rules[k]) \in ExecRids IN
          IF OkRule(k) THEN Lines(p) = 1 /\ (StatusFor(p) = "Built") = ran ELSE Lines(p) = 0
     /\ \A j \in DOMAIN ev.stat : ev.stat[j][1] \in AllTargets
=============================================================================
