INIT Init
NEXT Next
INVARIANT RoundTrip
INVARIANT Exact
INVARIANT Short
INVARIANT Padding
CHECK_DEADLOCK FALSE
