------------------------------ MODULE Persist ------------------------------
(***************************************************************************)
(* C16.  What reading a state file may yield, by the way the bytes were    *)
(* obtained from a valid state file.  Allowed(rec) judges one record       *)
(* (class of damage, outcome of the real History::read_rule_history /      *)
(* CurrentFileStates::from_file) written by the harness.                   *)
(***************************************************************************)
EXTENDS Naturals, Sequences, TLC, Json, IOUtils
\* how: "whole" (unchanged), "prefix" (a strict prefix), "flip" (one bit flipped), "junk" (random bytes), "extra" (bytes appended)
\* outcome: "same" (reads back the value that was written), "other" (well-formed different value), "error", "panic"
Outcomes(how) == CASE how = "whole"  -> {"same"}
                   [] how = "prefix" -> {"error"}
                   [] how = "flip"   -> {"error", "other", "same"}
                   [] how = "junk"   -> {"error", "other"}
                   [] how = "extra"  -> {"error", "same", "other"}
                   [] OTHER -> {}
Allowed(rec) == rec.outcome \in Outcomes(rec.how)
=============================================================================
