------------------------------ MODULE Identity ------------------------------
(***************************************************************************)
(* C13.  Rule identity: two rules are the same rule exactly when they have *)
(* the same set of targets, the same set of sources and the same command   *)
(* lines in the same order.                                                *)
(*  (a) Allowed(rec): judgement on a record (two rules, did the real       *)
(*      get_ticket give equal tickets?) written by the harness.            *)
(*  (b) model level (MC_identity): the byte string ruler feeds to SHA-256  *)
(*      (targets, sources, command each followed by newline, sections      *)
(*      closed by "\n:\n") is an injective function of the canonical form, *)
(*      for all rules over a small universe of parser-producible strings   *)
(*      (non-empty, newline-free, not a lone ':').                         *)
(***************************************************************************)
EXTENDS Naturals, Sequences, FiniteSets, TLC, Json, IOUtils

SeqSet(s) == {s[i] : i \in DOMAIN s}
Canon(r) == <<SeqSet(r.tg), SeqSet(r.src), r.cl>>
Allowed(rec) == rec.same = (Canon(rec.r1) = Canon(rec.r2))

(* ---- (b): strings as sequences of characters ------------------------------ *)
NL == "n"       \* the newline character
CL == ":"
RECURSIVE Cat(_)
Cat(ss) == IF ss = <<>> THEN <<>> ELSE Head(ss) \o Cat(Tail(ss))
Lines(ss) == Cat([i \in DOMAIN ss |-> ss[i] \o <<NL>>])
Close == <<NL, CL, NL>>
\* what from_strings hashes, given the lists already sorted
Ser(tg, src, cl) == Lines(tg) \o Close \o Lines(src) \o Close \o Lines(cl) \o Close
=============================================================================
