CONSTANTS
  Defects = {"stale_after_restore"}
  ClockModel = "tick"
  Ord0 <- mcOrd
  Menu <- mcMenu
  Init0 <- mcInit
  SrcVals = {"S0", "S1"}
  UserActs = {"edit", "build", "clean"}
  Goals = {"", "q", "p2"}
  MaxUser = 7
  Script <- mcScriptD4
INIT Init
NEXT Next
CHECK_DEADLOCK FALSE
INVARIANT C18_SameWithoutTable
