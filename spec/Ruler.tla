------------------------------- MODULE Ruler -------------------------------
(***************************************************************************)
(* Core specification of ruler's persistent state and of every step of a   *)
(* build / clean invocation that touches state shared between threads.     *)
(*                                                                         *)
(* One action = one shared operation of the implementation (channel send / *)
(* recv, is_file / rename on the cache directory, execute_command, join)   *)
(* followed by the thread-private work up to the thread's next shared      *)
(* operation.  Every action also produces `ev`, the event the harness logs *)
(* for that step, and folds it into the ghost record `g`; the property     *)
(* invariants (module RulerProps) speak about disk state, `ev` and `g`     *)
(* only, so that they can be evaluated on model states, on strictly        *)
(* validated traces and on merely observed traces alike.                   *)
(***************************************************************************)
EXTENDS Naturals, Sequences, FiniteSets, TLC, SequencesExt, FiniteSetsExt

CONSTANTS Defects,      \* subset of {"restore_race", "stale_after_restore", "torn_state"}: pre-repair behaviours
          ClockModel    \* "distinct": every file write gets a fresh stamp | "tick": one stamp per user action / invocation

VARIABLES ord,                               \* all path names in lexicographic order (TLA+ cannot compare strings)
          rules, env,                        \* current rules (sequence in the implementation's sorted order), undeclared input
          ws, cache, hist, fstab, rdir,      \* disk: workspace files, cache entries, rule histories, file-state table, ruler dirs
          clock,
          mode, goal, plan, tl, inbox, rxAlive, mj, merrs, mstat, mfst, early, verdict,   \* volatile state of an invocation
          ev, g                              \* last event, ghost

disk == <<ws, cache, hist, fstab, rdir>>
vol  == <<mode, goal, plan, tl, inbox, rxAlive, mj, merrs, mstat, mfst, early>>
vars == <<ord, rules, env, ws, cache, hist, fstab, rdir, clock,
          mode, goal, plan, tl, inbox, rxAlive, mj, merrs, mstat, mfst, early, verdict, ev, g>>

(* ---------------- generic helpers ---------------------------------------- *)
Put(f, k, v) == [q \in (DOMAIN f) \cup {k} |-> IF q = k THEN v ELSE f[q]]
Del(f, k) == [q \in (DOMAIN f) \ {k} |-> f[q]]
Has(f, k) == k \in DOMAIN f
EmptyF == [q \in {} |-> 0]
SeqSet(s) == {s[i] : i \in DOMAIN s}
IdxOf(s, e) == CHOOSE i \in DOMAIN s : s[i] = e
InSeq(e, s) == \E i \in DOMAIN s : s[i] = e
RestrictTo(f, S) == [q \in (DOMAIN f) \cap S |-> f[q]]

RECURSIVE JoinS(_, _)
JoinS(seq, sep) == IF seq = <<>> THEN ""
                   ELSE IF Len(seq) = 1 THEN seq[1]
                   ELSE seq[1] \o sep \o JoinS(Tail(seq), sep)

Lt(a, b) == IdxOf(ord, a) < IdxOf(ord, b)

(* ---------------- rules --------------------------------------------------- *)
(* A rule: [tg, src : sorted sequences of paths, cl : command lines, kind, id, omit, mask, x]      *)
(* kind/id/omit/mask/x are the harness' command language (what the command computes):               *)
(*   fn    target i = F(id,i)[all source contents]     sel   target i = F(id,i)[content of source i] *)
(*   copy  target i = content of the first source      const target i = K(id)                        *)
(*   fail  exits non-zero and writes nothing                                                         *)
(*   omit = k > 0: target k is not written (exit 0); mask: targets whose output also depends on env  *)
(*   x: the command sets the executable bit on its outputs                                           *)
(*   pf: the command starts with a line that exits non-zero; the remaining lines still run           *)
TargetsOf(rs) == UNION {SeqSet(rs[k].tg) : k \in DOMAIN rs}
SourcesOf(rs) == UNION {SeqSet(rs[k].src) : k \in DOMAIN rs}
AllTargets == TargetsOf(rules)
IsTarget(p) == p \in AllTargets
Producer(p) == rules[CHOOSE k \in DOMAIN rules : p \in SeqSet(rules[k].tg)]
SubIdx(p) == IdxOf(Producer(p).tg, p)
Leaves == SourcesOf(rules) \ AllTargets
RuleId(r) == "R{" \o JoinS(r.tg, ",") \o "}{" \o JoinS(r.src, ",") \o "}{" \o JoinS(r.cl, "|") \o "}"

NoDupTargets(rs) == \A j, k \in DOMAIN rs : j # k => SeqSet(rs[j].tg) \cap SeqSet(rs[k].tg) = {}
RECURSIVE Peel(_, _)
Peel(rs, S) == LET T == UNION {SeqSet(rs[k].tg) : k \in S}
                   R == {k \in S : SeqSet(rs[k].src) \cap T = {}}
               IN IF R = {} THEN S ELSE Peel(rs, S \ R)
Acyclic(rs) == Peel(rs, DOMAIN rs) = {}
ValidRules(rs) == NoDupTargets(rs) /\ Acyclic(rs)

Base(r, i, sc) ==
  CASE r.kind = "copy"  -> sc[1]
    [] r.kind = "const" -> "K(" \o r.id \o ")"
    [] r.kind = "empty" -> ""                       \* a stamp file: its content is the empty string, whose hash is also what an empty FileState holds (NoState.h)
    [] r.kind = "sel"   -> "F(" \o r.id \o "," \o ToString(i) \o ")[" \o sc[((i - 1) % Len(sc)) + 1] \o "]"
    [] OTHER            -> "F(" \o r.id \o "," \o ToString(i) \o ")[" \o JoinS(sc, "|") \o "]"
Out(r, i, sc, e) == Base(r, i, sc) \o (IF InSeq(i, r.mask) THEN "@" \o e ELSE "")
SrcHash(ts) == "H[" \o JoinS(ts, "|") \o "]"

(* scope of an invocation: the goal's rule and its transitive prerequisites, or everything *)
RECURSIVE Closure(_)
Closure(S) == LET N == S \cup {k \in DOMAIN rules : \E j \in S : SeqSet(rules[k].tg) \cap SeqSet(rules[j].src) # {}}
              IN IF N = S THEN S ELSE Closure(N)
ScopeIdx(gl) == IF gl = "" THEN DOMAIN rules
                ELSE IF gl \in AllTargets THEN Closure({CHOOSE k \in DOMAIN rules : gl \in SeqSet(rules[k].tg)})
                ELSE {}
\* dependency analysis must succeed exactly then (C12): no path is a target twice, the goal is a target, no cycle in scope
SortOK(gl) == NoDupTargets(rules) /\ (gl = "" \/ gl \in AllTargets) /\ Peel(rules, ScopeIdx(gl)) = {}
RulesSane == NoDupTargets(rules) /\ Acyclic(rules)
ScopeTargets(gl) == UNION {SeqSet(rules[k].tg) : k \in ScopeIdx(gl)}
ScopeLeaves(gl) == (UNION {SeqSet(rules[k].src) : k \in ScopeIdx(gl)}) \ AllTargets

(* ---------------- plan: the implementation's DFS post-order --------------- *)
RECURSIVE Post(_, _)
Post(r, acc) ==
  IF InSeq(r, acc) THEN acc
  ELSE LET RECURSIVE FoldSrc(_, _)
           FoldSrc(j, a) == IF j > Len(r.src) THEN a
                         ELSE IF IsTarget(r.src[j]) THEN FoldSrc(j + 1, Post(Producer(r.src[j]), a))
                         ELSE FoldSrc(j + 1, a)
       IN Append(FoldSrc(1, acc), r)

PlanNodes(gl) ==
  IF gl # "" THEN Post(Producer(gl), <<>>)
  ELSE LET RECURSIVE All(_, _)
           All(k, a) == IF k > Len(rules) THEN a ELSE All(k + 1, Post(rules[k], a))
       IN All(1, <<>>)
PlanLeaves(nodes) == SetToSortSeq((UNION {SeqSet(nodes[k].src) : k \in DOMAIN nodes}) \ AllTargets, Lt)

\* out-edges of thread t in the order in which ChannelPack::new pushes the senders
MkOut(leaves, nodes) ==
  LET nl == Len(leaves)  nn == Len(nodes)
      TidOf(p) == IF p \in SeqSet(leaves) THEN IdxOf(leaves, p)
                  ELSE nl + (CHOOSE k \in DOMAIN nodes : p \in SeqSet(nodes[k].tg))
      SubOf(p) == IF p \in SeqSet(leaves) THEN 1
                  ELSE LET k == CHOOSE k \in DOMAIN nodes : p \in SeqSet(nodes[k].tg) IN IdxOf(nodes[k].tg, p)
  IN [t \in 1..(nl + nn) |->
        LET E == {e \in ((nl + 1)..(nl + nn)) \X (1..Len(ord)) :
                    e[2] \in DOMAIN nodes[e[1] - nl].src /\ TidOf(nodes[e[1] - nl].src[e[2]]) = t}
            S == SetToSortSeq(E, LAMBDA a, b : a[1] < b[1] \/ (a[1] = b[1] /\ a[2] < b[2]))
        IN [n \in DOMAIN S |-> [to |-> S[n][1], k |-> S[n][2], sub |-> SubOf(nodes[S[n][1] - nl].src[S[n][2]])]]]

NoPlan == [leaves |-> <<>>, nodes |-> <<>>, out |-> <<>>]
NL == Len(plan.leaves)
NN == Len(plan.nodes)
Tids == 1..(NL + NN)
IsLeafT(t) == t <= NL
RuleOf(t) == plan.nodes[t - NL]
OutEdges(t) == plan.out[t]
Name(t) == IF IsLeafT(t) THEN plan.leaves[t] ELSE RuleOf(t).tg[1]
TidOfName(n) == IF n \in SeqSet(plan.leaves) THEN IdxOf(plan.leaves, n)
                ELSE NL + (CHOOSE k \in DOMAIN plan.nodes : plan.nodes[k].tg[1] = n)
IsName(n) == n \in SeqSet(plan.leaves) \/ \E k \in DOMAIN plan.nodes : plan.nodes[k].tg[1] = n

(* ---------------- hashing with the modification-time shortcut ------------- *)
NoState == [h |-> "", m |-> 0, x |-> FALSE]
BelievedIn(W, p, a) == IF ~Has(W, p) THEN "none"
                       ELSE IF W[p].m = a.m THEN a.h ELSE W[p].c

(* ---------------- ghost ---------------------------------------------------- *)
NoPre == [ws |-> EmptyF, cache |-> EmptyF, hist |-> EmptyF, fstab |-> EmptyF, tab |-> "absent", htorn |-> {}, nodir |-> {}]
G0 == [kind |-> "none", goal |-> "", pre |-> NoPre, execs |-> {}, dup |-> FALSE, baks |-> {}, takes |-> {}, tk |-> {},
       ever |-> {}, utd |-> EmptyF, sinceCrash |-> FALSE, expect |-> <<>>, nuser |-> 0,
       ever0 |-> {}, utd0 |-> EmptyF, sc0 |-> FALSE, dirgone |-> FALSE]

\* rules whose execution in this invocation was recorded by ruler: exit 0, every target produced, no contradiction reported
Recorded(execs, errs) ==
  {[rid |-> x.rid, sc |-> x.seen, outs |-> x.outs] : x \in
     {x \in execs : /\ x.ok
                    /\ ~\E j \in DOMAIN errs : errs[j][1] \in {"Contradiction", "TargetFileNotGenerated"}
                                               /\ errs[j][3] = x.rid}}

\* the fold: a function of the previous ghost, the event and the disk state after the event
Fold(gg, e, W, C, H, T, D, scopeT) ==
  CASE e.a \in {"build", "clean"} ->
         [gg EXCEPT !.kind = e.a, !.goal = e.g, !.pre = [ws |-> W, cache |-> C, hist |-> H, fstab |-> T, tab |-> D.tab, htorn |-> D.htorn, nodir |-> D.nodir],
                    !.execs = {}, !.dup = FALSE, !.baks = {}, !.takes = {}, !.tk = {}, !.nuser = @ + 1,
                    !.expect = IF Has(e, "serial") THEN e.serial ELSE <<>>,
                    !.ever0 = gg.ever, !.sc0 = gg.sinceCrash,
                    !.utd0 = IF e.a = "build" /\ Has(e, "notable") THEN EmptyF ELSE gg.utd,
                    !.utd = IF e.a = "build" /\ Has(e, "notable") THEN EmptyF ELSE @]
    [] e.a = "step" ->
         CASE e.op = "bak" -> [gg EXCEPT !.baks = @ \cup {e.p}]
           [] e.op = "take" /\ e.ok -> [gg EXCEPT !.takes = @ \cup {e.p}, !.tk = @ \cup {<<e.p, e.n>>}]
           [] e.op = "exec" -> [gg EXCEPT !.execs = @ \cup {[rid |-> e.rid, seen |-> e.seen, ok |-> e.ok, outs |-> e.outs]},
                                           !.dup = @ \/ \E x \in gg.execs : x.rid = e.rid]
           [] OTHER -> gg
    [] e.a = "join" -> gg
    [] e.a = "ret" ->
         IF e.kind = "build"
         THEN [gg EXCEPT !.kind = "none", !.sinceCrash = FALSE,
                         !.ever = IF e.verdict \in {"ok", "fail"} THEN @ \cup Recorded(gg.execs, e.errs) ELSE @,
                         !.utd = IF e.verdict = "ok"
                                 THEN [p \in (DOMAIN @) \cup scopeT |->
                                         IF p \in scopeT THEN (IF Has(W, p) THEN [c |-> W[p].c, x |-> W[p].x] ELSE [c |-> "?", x |-> FALSE])
                                         ELSE @[p]]
                                 ELSE EmptyF]
         ELSE [gg EXCEPT !.kind = "none", !.utd = IF e.verdict = "cleaned" THEN @ ELSE EmptyF]
    [] e.a = "crash" -> [gg EXCEPT !.kind = "none", !.ever = {}, !.utd = EmptyF, !.sinceCrash = TRUE]
    [] e.a = "delruler" -> [gg EXCEPT !.utd = EmptyF, !.ever = IF e.what \in {"all", "history"} THEN {} ELSE @, !.nuser = @ + 1]
    [] OTHER -> [gg EXCEPT !.utd = EmptyF, !.nuser = @ + 1, !.dirgone = @ \/ e.a = "rmdir"]     \* every other user-level action

\* every action ends with this: the event it produced and the ghost folded over it
Emit(e) == /\ ev' = e
           /\ g' = Fold(g, e, ws', cache', hist', fstab', rdir, IF e.a = "ret" THEN ScopeTargets(goal) ELSE {})

(* ---------------- clock ---------------------------------------------------- *)
Tick == ClockModel = "tick"
\* stamp of the n-th file written by the current step (n >= 1)
Stamp(n) == IF Tick THEN clock ELSE clock + n
Bump(n) == clock' = IF Tick THEN clock ELSE clock + n

(* ---------------- user-level actions --------------------------------------- *)
Idle == mode = "idle"
UserFrame == UNCHANGED vol /\ verdict' = "none"

SetRules(rs) ==
  /\ Idle /\ rules' = rs
  /\ clock' = clock + 1 /\ UserFrame /\ UNCHANGED <<ord, env, disk>>
  /\ Emit([a |-> "rules", rules |-> rs])

\* write a file in the workspace: edit / revert a source, tamper with a target
Edit(p, c) ==
  /\ Idle /\ p \notin rdir.nodir
  /\ ws' = Put(ws, p, [c |-> c, m |-> clock + 1, x |-> IF Has(ws, p) THEN ws[p].x ELSE FALSE])
  /\ clock' = clock + 1 /\ UserFrame /\ UNCHANGED <<ord, rules, env, cache, hist, fstab, rdir>>
  /\ Emit([a |-> "edit", p |-> p, c |-> c])

DelFile(p) ==
  /\ Idle /\ Has(ws, p) /\ ws' = Del(ws, p)
  /\ clock' = clock + 1 /\ UserFrame /\ UNCHANGED <<ord, rules, env, cache, hist, fstab, rdir>>
  /\ Emit([a |-> "del", p |-> p])

DelCache(n) ==
  /\ Idle /\ Has(cache, n) /\ cache' = Del(cache, n)
  /\ clock' = clock + 1 /\ UserFrame /\ UNCHANGED <<ord, rules, env, ws, hist, fstab, rdir>>
  /\ Emit([a |-> "delcache", n |-> n])

\* nodir: the workspace paths whose directory the user has removed (nothing can be created there until it is made again)
NoDir == [root |-> FALSE, cache |-> FALSE, hist |-> FALSE, tab |-> "absent", htorn |-> {}, nodir |-> {}]
DelRuler(what) ==
  /\ Idle /\ rdir.root
  /\ CASE what = "all"     -> cache' = EmptyF /\ hist' = EmptyF /\ fstab' = EmptyF /\ rdir' = [NoDir EXCEPT !.nodir = rdir.nodir]
       [] what = "cache"   -> cache' = EmptyF /\ rdir' = [rdir EXCEPT !.cache = FALSE] /\ UNCHANGED <<hist, fstab>>
       [] what = "history" -> hist' = EmptyF /\ rdir' = [rdir EXCEPT !.hist = FALSE, !.htorn = {}] /\ UNCHANGED <<cache, fstab>>
       [] what = "table"   -> fstab' = EmptyF /\ rdir' = [rdir EXCEPT !.tab = "absent"] /\ UNCHANGED <<cache, hist>>
  /\ clock' = clock + 1 /\ UserFrame /\ UNCHANGED <<ord, rules, env, ws>>
  /\ Emit([a |-> "delruler", what |-> what])

\* move a file over another path, keeping its stamp and mode (mv, cp -p): an old file can land on a target path
Move(p, q) ==
  /\ Idle /\ Has(ws, p) /\ p # q /\ q \notin rdir.nodir
  /\ ws' = Put(Del(ws, p), q, ws[p])
  /\ clock' = clock + 1 /\ UserFrame /\ UNCHANGED <<ord, rules, env, cache, hist, fstab, rdir>>
  /\ Emit([a |-> "mv", p |-> p, q |-> q])

\* damage a state file (the table, or the history of one rule): it no longer deserialises
Corrupt(what, rid) ==
  /\ Idle
  /\ IF what = "table"
     THEN /\ rdir.tab = "ok" /\ rdir' = [rdir EXCEPT !.tab = "torn"] /\ fstab' = EmptyF /\ UNCHANGED hist
     ELSE /\ Has(hist, rid) /\ rdir' = [rdir EXCEPT !.htorn = @ \cup {rid}] /\ hist' = Del(hist, rid) /\ UNCHANGED fstab
  /\ clock' = clock + 1 /\ UserFrame /\ UNCHANGED <<ord, rules, env, ws, cache>>
  /\ Emit([a |-> "corrupt", what |-> what, rid |-> rid])

\* rm -r of a workspace directory (S: the paths in it), and making it again
RmDir(d, S) ==
  /\ Idle /\ S # {} /\ S \cap rdir.nodir = {}
  /\ ws' = [p \in (DOMAIN ws) \ S |-> ws[p]] /\ rdir' = [rdir EXCEPT !.nodir = @ \cup S]
  /\ clock' = clock + 1 /\ UserFrame /\ UNCHANGED <<ord, rules, env, cache, hist, fstab>>
  /\ Emit([a |-> "rmdir", d |-> d])
MkDir(d, S) ==
  /\ Idle /\ S # {} /\ S \subseteq rdir.nodir
  /\ rdir' = [rdir EXCEPT !.nodir = @ \ S]
  /\ clock' = clock + 1 /\ UserFrame /\ UNCHANGED <<ord, rules, env, ws, cache, hist, fstab>>
  /\ Emit([a |-> "mkdir", d |-> d])

ChangeEnv(v) ==
  /\ Idle /\ env' = v
  /\ clock' = clock + 1 /\ UserFrame /\ UNCHANGED <<ord, rules, disk>>
  /\ Emit([a |-> "env", v |-> v])

(* ---------------- starting an invocation ----------------------------------- *)
NewLocals == [pc |-> "recv", got |-> <<>>, i |-> 1, res |-> <<>>, rem |-> <<>>, blob |-> <<>>, fsv |-> <<>>,
              sent |-> 0, result |-> "none", err |-> <<>>, ran |-> FALSE, nh |-> EmptyF, sh |-> ""]

\* main's sequential prefix: directory::init, load the table, parse, sort
InitDir == [rdir EXCEPT !.root = TRUE, !.cache = TRUE, !.hist = TRUE, !.tab = IF @ = "absent" THEN "ok" ELSE @]
EarlyError(gl, nodes) ==
  IF rdir.tab = "torn" THEN "err:FailedToReadCurrentFileStates"
  ELSE IF ~SortOK(gl) THEN "err:TopologicalSortFailed"
  ELSE IF \E k \in DOMAIN nodes : RuleId(nodes[k]) \in rdir.htorn THEN "err:HistoryError"
  ELSE ""

StartEv(a, gl, extra) == [q \in {"a", "g"} \cup DOMAIN extra |-> IF q = "a" THEN a ELSE IF q = "g" THEN gl ELSE extra[q]]

\* T: the file-state table this build starts from (fstab, or empty for the twin run of C18)
StartBuildWith(gl, T, extra) ==
  /\ Idle
  /\ LET nodes == IF SortOK(gl) THEN PlanNodes(gl) ELSE <<>>
         leaves == PlanLeaves(nodes)
         er == EarlyError(gl, nodes)
         nl == Len(leaves)  nn == Len(nodes)
         pl == [leaves |-> leaves, nodes |-> nodes, out |-> MkOut(leaves, nodes)]
         taken == SeqSet(leaves) \cup UNION {SeqSet(nodes[k].tg) : k \in DOMAIN nodes} IN
     /\ rdir' = InitDir
     /\ early' = er
     /\ IF er # ""
        THEN /\ plan' = NoPlan /\ tl' = <<>> /\ inbox' = <<>> /\ rxAlive' = <<>> /\ mfst' = EmptyF
        ELSE /\ plan' = pl
             /\ tl' = [t \in 1..(nl + nn) |->
                         IF t <= nl
                         THEN LET p == leaves[t]  a == IF Has(T, p) THEN T[p] ELSE NoState  h == BelievedIn(ws, p, a) IN
                              [NewLocals EXCEPT !.pc = IF pl.out[t] = <<>> THEN "done" ELSE IF h = "none" THEN "csend" ELSE "send",
                                                !.result = IF h = "none" THEN "error" ELSE "ok",
                                                !.err = IF h = "none" THEN <<"FileNotFound", p, "">> ELSE <<>>,
                                                !.blob = <<a>>, !.fsv = <<h>>]
                         ELSE LET r == nodes[t - nl] IN
                              [NewLocals EXCEPT !.blob = [i \in DOMAIN r.tg |-> IF Has(T, r.tg[i]) THEN T[r.tg[i]] ELSE NoState],
                                                !.nh = IF Has(hist, RuleId(r)) THEN hist[RuleId(r)] ELSE EmptyF]]
             /\ inbox' = [t \in 1..(nl + nn) |-> IF t <= nl THEN <<>> ELSE [k \in DOMAIN nodes[t - nl].src |-> <<>>]]
             /\ rxAlive' = [t \in 1..(nl + nn) |-> TRUE]
             /\ mfst' = [p \in (DOMAIN T) \ taken |-> T[p]]
  /\ mode' = "build" /\ goal' = gl /\ mj' = 1 /\ merrs' = <<>> /\ mstat' = <<>> /\ verdict' = "none"
  /\ clock' = clock + 1
  /\ UNCHANGED <<ord, rules, env, ws, cache, hist, fstab>>
  /\ Emit(StartEv("build", gl, extra))

StartBuild(gl) == StartBuildWith(gl, fstab, EmptyF)

\* clean: one thread per in-scope rule, no leaves, no channels; each existing target is renamed into the cache
RECURSIVE CAdv(_, _, _)
CAdv(r, l, W) == IF l.i > Len(r.tg) THEN [l EXCEPT !.pc = "done", !.result = "ok"]
                 ELSE IF Has(W, r.tg[l.i]) THEN [l EXCEPT !.pc = "cbak"]
                 ELSE CAdv(r, [l EXCEPT !.i = l.i + 1], W)

StartClean(gl) ==
  /\ Idle
  /\ LET nodes == IF SortOK(gl) THEN PlanNodes(gl) ELSE <<>>
         er == IF rdir.tab = "torn" THEN "err:FailedToReadCurrentFileStates"
               ELSE IF ~SortOK(gl) THEN "err:TopologicalSortFailed" ELSE "" IN
     /\ rdir' = InitDir
     /\ early' = er
     /\ IF er # ""
        THEN plan' = NoPlan /\ tl' = <<>>
        ELSE /\ plan' = [leaves |-> <<>>, nodes |-> nodes, out |-> [t \in DOMAIN nodes |-> <<>>]]
             /\ tl' = [t \in DOMAIN nodes |->
                         LET r == nodes[t] IN
                         CAdv(r, [NewLocals EXCEPT !.blob = [i \in DOMAIN r.tg |-> IF Has(fstab, r.tg[i]) THEN fstab[r.tg[i]] ELSE NoState]], ws)]
  /\ inbox' = <<>> /\ rxAlive' = <<>> /\ mfst' = EmptyF
  /\ mode' = "clean" /\ goal' = gl /\ mj' = 1 /\ merrs' = <<>> /\ mstat' = <<>> /\ verdict' = "none"
  /\ clock' = clock + 1
  /\ UNCHANGED <<ord, rules, env, ws, cache, hist, fstab>>
  /\ Emit([a |-> "clean", g |-> gl])

(* ---------------- thread-private continuation ------------------------------ *)
\* end of a thread's own work: start sending, or finish when it has no out-edge
ToSend(t, l, pc, res) == IF OutEdges(t) = <<>> THEN [l EXCEPT !.pc = "done", !.result = res]
                         ELSE [l EXCEPT !.pc = pc, !.result = res]
Fail(t, l, e) == ToSend(t, [l EXCEPT !.err = e], "csend", "error")

\* W is the workspace AFTER the shared step that precedes this private work
RECURSIVE Adv(_, _, _)
Adv(t, l, W) ==
  LET r == RuleOf(t)  i == l.i IN
  IF i > Len(r.tg) THEN
     LET blob2 == [k \in DOMAIN r.tg |->                                   \* Blob::forget_replaced (repair D4)
                     IF l.res[k] = "RC" /\ "stale_after_restore" \notin Defects THEN NoState ELSE l.blob[k]]
     IN IF \E k \in DOMAIN l.res : l.res[k] = "NR"
        THEN [l EXCEPT !.pc = "exec", !.blob = blob2]
        ELSE ToSend(t, [l EXCEPT !.blob = blob2,                            \* get_current_file_state_vec
                                 !.fsv = [k \in DOMAIN r.tg |-> BelievedIn(W, r.tg[k], blob2[k])]], "send", "ok")
  ELSE LET p == r.tg[i]  cur == BelievedIn(W, p, l.blob[i]) IN
     IF l.rem # <<>> THEN                                                   \* resolve_single_target
        IF cur = l.rem[i] THEN Adv(t, [l EXCEPT !.res = Append(@, "AC"), !.i = i + 1], W)
        ELSE IF cur # "none" THEN [l EXCEPT !.pc = "bak"] ELSE [l EXCEPT !.pc = "chk"]
     ELSE IF cur # "none" THEN [l EXCEPT !.pc = "bak"]                      \* resolve_with_no_current_file_states
          ELSE Adv(t, [l EXCEPT !.res = Append(@, "NR"), !.i = i + 1], W)

(* ---------------- thread steps ---------------------------------------------- *)
Live(t) == mode = "build" /\ t \in Tids /\ tl[t].pc # "done"
SetL(t, l) == tl' = [tl EXCEPT ![t] = l]
StepEv(t, op, extra) == [q \in {"a", "t", "op"} \cup DOMAIN extra |->
                           IF q = "a" THEN "step" ELSE IF q = "t" THEN Name(t) ELSE IF q = "op" THEN op ELSE extra[q]]

\* the n-th send; the last one ends the thread; sending to a dropped receiver is an internal error
SendStep(t, v) ==
  LET l == tl[t]  oe == OutEdges(t)  n == l.sent + 1  e == oe[n] IN
  IF rxAlive[e.to]
  THEN /\ inbox' = [inbox EXCEPT ![e.to][e.k] = Append(@, v)]
       /\ SetL(t, [l EXCEPT !.sent = n, !.pc = IF n = Len(oe) THEN "done" ELSE @])
  ELSE /\ SetL(t, [l EXCEPT !.pc = "done", !.result = "SenderError"]) /\ UNCHANGED inbox

Send(t) ==
  /\ Live(t) /\ tl[t].pc \in {"send", "csend"}
  /\ UNCHANGED <<ord, rules, env, disk, clock, mode, goal, plan, rxAlive, mj, merrs, mstat, mfst, early, verdict>>
  /\ LET v == IF tl[t].pc = "csend" THEN "cancel" ELSE tl[t].fsv[OutEdges(t)[tl[t].sent + 1].sub] IN
     /\ SendStep(t, v)
     /\ Emit(StepEv(t, "send", [v |-> v]))

\* the k-th recv; the last one drops all receivers, then forwards a cancel or starts resolving
Recv(t) ==
  /\ Live(t) /\ tl[t].pc = "recv"
  /\ UNCHANGED <<ord, rules, env, disk, clock, mode, goal, plan, mj, merrs, mstat, mfst, early, verdict>>
  /\ LET l == tl[t]  k == Len(l.got) + 1  r == RuleOf(t) IN
     /\ inbox[t][k] # <<>>
     /\ LET got == Append(l.got, Head(inbox[t][k])) IN
        IF k < Len(r.src) THEN /\ SetL(t, [l EXCEPT !.got = got]) /\ UNCHANGED rxAlive
        ELSE /\ rxAlive' = [rxAlive EXCEPT ![t] = FALSE]
             /\ IF InSeq("cancel", got)
                THEN SetL(t, ToSend(t, [l EXCEPT !.got = got], "csend", "cancel"))
                ELSE LET sh == SrcHash(got) IN
                     SetL(t, Adv(t, [l EXCEPT !.got = got, !.sh = sh,
                                              !.rem = IF Has(l.nh, sh) THEN l.nh[sh] ELSE <<>>], ws))
     /\ inbox' = [inbox EXCEPT ![t][k] = Tail(@)]
  /\ Emit(StepEv(t, "recv", EmptyF))

\* rename the current target into the cache under its believed hash
Backup(t) ==
  /\ Live(t) /\ tl[t].pc = "bak"
  /\ UNCHANGED <<ord, rules, env, hist, fstab, rdir, clock, mode, goal, plan, inbox, rxAlive, mj, merrs, mstat, mfst, early, verdict>>
  /\ LET l == tl[t]  r == RuleOf(t)  p == r.tg[l.i]  name == BelievedIn(ws, p, l.blob[l.i]) IN
     /\ cache' = Put(cache, name, ws[p])
     /\ ws' = Del(ws, p)
     /\ IF l.rem # <<>> THEN SetL(t, [l EXCEPT !.pc = "chk"])
        ELSE SetL(t, Adv(t, [l EXCEPT !.res = Append(@, "NR"), !.i = l.i + 1], Del(ws, p)))
     /\ Emit(StepEv(t, "bak", [p |-> p, n |-> name]))

\* is_file(cache/<remembered hash>); "rechk" is the check a thread makes after losing a restore race (repair D2)
Check(t) ==
  /\ Live(t) /\ tl[t].pc \in {"chk", "rechk"}
  /\ UNCHANGED <<ord, rules, env, disk, clock, mode, goal, plan, inbox, rxAlive, mj, merrs, mstat, mfst, early, verdict>>
  /\ LET l == tl[t]  n == l.rem[l.i] IN
     /\ IF Has(cache, n)
        THEN IF l.pc = "chk" THEN SetL(t, [l EXCEPT !.pc = "take"])
             ELSE SetL(t, Fail(t, l, <<"ResolutionError", "CacheMalfunction", "">>))
        ELSE SetL(t, Adv(t, [l EXCEPT !.res = Append(@, "NR"), !.i = l.i + 1], ws))
     /\ Emit(StepEv(t, "chk", [n |-> n, r |-> Has(cache, n)]))

\* rename(cache/<remembered hash>, target)
Take(t) ==
  /\ Live(t) /\ tl[t].pc = "take"
  /\ UNCHANGED <<ord, rules, env, hist, fstab, rdir, clock, mode, goal, plan, inbox, rxAlive, mj, merrs, mstat, mfst, early, verdict>>
  /\ LET l == tl[t]  r == RuleOf(t)  p == r.tg[l.i]  n == l.rem[l.i] IN
     /\ IF Has(cache, n) /\ p \notin rdir.nodir
        THEN /\ ws' = Put(ws, p, cache[n]) /\ cache' = Del(cache, n)
             /\ SetL(t, Adv(t, [l EXCEPT !.res = Append(@, "RC"), !.i = l.i + 1], Put(ws, p, cache[n])))
        ELSE /\ UNCHANGED <<ws, cache>>                                        \* somebody else took it, or the target's directory is gone
             /\ IF "restore_race" \in Defects
                THEN SetL(t, Fail(t, l, <<"ResolutionError", "CacheMalfunction", "">>))   \* pinned code
                ELSE SetL(t, [l EXCEPT !.pc = "rechk"])
     /\ Emit(StepEv(t, "take", [p |-> p, n |-> n, ok |-> Has(cache, n) /\ p \notin rdir.nodir]))

\* execute_command, then update_to_match_system_file_state and RuleHistory::insert
Exec(t) ==
  /\ Live(t) /\ tl[t].pc = "exec"
  /\ UNCHANGED <<ord, rules, env, cache, hist, fstab, rdir, mode, goal, plan, inbox, rxAlive, mj, merrs, mstat, mfst, early, verdict>>
  /\ LET l == tl[t]  r == RuleOf(t)  rid == RuleId(r)
         srcOk == \A j \in DOMAIN r.src : Has(ws, r.src[j])
         sc == [j \in DOMAIN r.src |-> IF Has(ws, r.src[j]) THEN ws[r.src[j]].c ELSE "MISSING"]
         dirOk == SeqSet(r.tg) \cap rdir.nodir = {}     \* a command cannot write into a directory that is not there
         runs == r.kind # "fail" /\ srcOk /\ dirOk     \* the line that produces the outputs runs
         okc == runs /\ ~r.pf                           \* every line of the command exited 0
         written == IF runs THEN {i \in DOMAIN r.tg : i # r.omit} ELSE {}
         Nth(i) == Cardinality({j \in written : j <= i})
         nws == [p \in (DOMAIN ws) \cup {r.tg[i] : i \in written} |->
                   IF \E i \in written : r.tg[i] = p
                   THEN LET i == IdxOf(r.tg, p) IN [c |-> Out(r, i, sc, env), m |-> Stamp(Nth(i)), x |-> r.x \/ (Has(ws, p) /\ ws[p].x)]   \* truncating keeps the mode
                   ELSE ws[p]]
         outs == [i \in DOMAIN r.tg |-> IF Has(nws, r.tg[i]) THEN nws[r.tg[i]].c ELSE "MISSING"]
         missing == {i \in DOMAIN r.tg : ~Has(nws, r.tg[i])}
         \* get_actual_file_state: the shortcut applies here too
         blob2 == [i \in DOMAIN r.tg |->
                     IF Has(nws, r.tg[i])
                     THEN [h |-> IF nws[r.tg[i]].m = l.blob[i].m THEN l.blob[i].h ELSE nws[r.tg[i]].c,
                           m |-> nws[r.tg[i]].m, x |-> nws[r.tg[i]].x]
                     ELSE l.blob[i]]
         fsv == [i \in DOMAIN r.tg |-> blob2[i].h]
         diff == IF Has(l.nh, l.sh) THEN {i \in DOMAIN r.tg : l.nh[l.sh][i] # fsv[i]} ELSE {}
         l2 == [l EXCEPT !.ran = TRUE]
     IN
     /\ ws' = nws /\ Bump(Cardinality(written))
     /\ IF ~okc THEN SetL(t, Fail(t, l2, <<"CommandExecutedButErrored", "", "">>))
        ELSE IF missing # {}
        THEN SetL(t, Fail(t, l2, <<"TargetFileNotGenerated", r.tg[CHOOSE i \in missing : \A j \in missing : i <= j], rid>>))
        ELSE IF diff # {}
        THEN SetL(t, Fail(t, [l2 EXCEPT !.blob = blob2],
                          <<"Contradiction", JoinS([k \in 1..Cardinality(diff) |-> r.tg[CHOOSE i \in diff : Cardinality({j \in diff : j < i}) = k - 1]], ","), rid>>))
        ELSE SetL(t, ToSend(t, [l2 EXCEPT !.fsv = fsv, !.nh = Put(l.nh, l.sh, fsv), !.blob = blob2], "send", "ok"))
     /\ Emit(StepEv(t, "exec", [rid |-> rid, seen |-> sc, ok |-> okc, outs |-> outs]))

ThreadStep(t) == Send(t) \/ Recv(t) \/ Backup(t) \/ Check(t) \/ Take(t) \/ Exec(t)

(* ---------------- main thread: join in spawn order, then finish -------------- *)
\* volatile state back to a canonical value (also what a crash does)
VolReset == /\ mode' = "idle" /\ goal' = "" /\ plan' = NoPlan /\ tl' = <<>> /\ inbox' = <<>> /\ rxAlive' = <<>>
            /\ mj' = 0 /\ merrs' = <<>> /\ mstat' = <<>> /\ mfst' = EmptyF /\ early' = ""

StatusOf(l, i) == IF l.ran THEN "Built"
                  ELSE CASE l.res[i] = "AC" -> "Up-to-date" [] l.res[i] = "RC" -> "Recovered" [] OTHER -> "Outdated"

Join ==
  /\ mode = "build" /\ mj \in Tids /\ tl[mj].pc = "done"
  /\ UNCHANGED <<ord, rules, env, ws, cache, fstab, rdir, clock, mode, goal, plan, tl, inbox, rxAlive, verdict>>
  /\ LET l == tl[mj] IN
     /\ IF l.result = "ok" /\ ~IsLeafT(mj)
        THEN LET r == RuleOf(mj) IN
             /\ hist' = Put(hist, RuleId(r), l.nh)                          \* write_rule_history (temp file + rename)
             /\ mstat' = mstat \o [i \in DOMAIN r.tg |-> <<r.tg[i], StatusOf(l, i)>>]
        ELSE UNCHANGED <<hist, mstat>>
     /\ mfst' = IF l.result # "ok" THEN mfst                                \* insert_blob
                ELSE IF IsLeafT(mj) THEN Put(mfst, plan.leaves[mj], l.blob[1])
                ELSE LET r == RuleOf(mj) IN
                     [p \in (DOMAIN mfst) \cup SeqSet(r.tg) |-> IF p \in SeqSet(r.tg) THEN l.blob[IdxOf(r.tg, p)] ELSE mfst[p]]
     /\ merrs' = IF l.result = "error" THEN Append(merrs, l.err) ELSE merrs
     /\ early' = IF l.result \in {"SenderError", "ReceiverError"} /\ early = "" THEN "panic" ELSE early
     /\ mj' = mj + 1
     /\ Emit([a |-> "join", t |-> Name(mj)])

\* after the last join: save the table, return
Finish ==
  /\ mode = "build" /\ mj = NL + NN + 1
  /\ UNCHANGED <<ord, rules, env, ws, cache, hist, rdir, clock>>
  /\ LET v == IF early # "" THEN early ELSE IF merrs = <<>> THEN "ok" ELSE "fail" IN
     /\ IF early = "" THEN fstab' = mfst ELSE UNCHANGED fstab
     /\ VolReset /\ verdict' = v
     /\ Emit([a |-> "ret", kind |-> "build", verdict |-> v, errs |-> merrs, stat |-> mstat])

CleanStep(t) ==
  /\ mode = "clean" /\ t \in DOMAIN tl /\ tl[t].pc = "cbak"
  /\ UNCHANGED <<ord, rules, env, hist, fstab, rdir, clock, mode, goal, plan, inbox, rxAlive, mj, merrs, mstat, mfst, early, verdict>>
  /\ LET l == tl[t]  r == plan.nodes[t]  p == r.tg[l.i]  name == BelievedIn(ws, p, l.blob[l.i]) IN
     /\ cache' = Put(cache, name, ws[p])
     /\ ws' = Del(ws, p)
     /\ SetL(t, CAdv(r, [l EXCEPT !.i = l.i + 1], Del(ws, p)))
     /\ Emit(StepEv(t, "bak", [p |-> p, n |-> name]))

CleanJoin ==
  /\ mode = "clean" /\ mj \in DOMAIN tl /\ tl[mj].pc = "done"
  /\ UNCHANGED <<ord, rules, env, disk, clock, mode, goal, plan, tl, inbox, rxAlive, merrs, mstat, mfst, early, verdict>>
  /\ mj' = mj + 1
  /\ Emit([a |-> "join", t |-> Name(mj)])

CleanFinish ==
  /\ mode = "clean" /\ mj = Len(tl) + 1
  /\ UNCHANGED <<ord, rules, env, disk, clock>>
  /\ LET v == IF early # "" THEN early ELSE "cleaned" IN
     /\ VolReset /\ verdict' = v
     /\ Emit([a |-> "ret", kind |-> "clean", verdict |-> v, errs |-> <<>>, stat |-> <<>>])

(* ---------------- crash -------------------------------------------------------- *)
\* ruler is killed between two steps: volatile state is gone, the disk stays as it is
Crash ==
  /\ mode # "idle"
  /\ UNCHANGED <<ord, rules, env, disk, clock>>
  /\ VolReset /\ verdict' = "none"
  /\ Emit([a |-> "crash"])

\* killed in the middle of a step that makes several file-system mutations
\*  - inside a command: targets 1..k-1 of the command are complete; target k has just been created ("empty"), is half written ("torn")
\*    or is written but has not got its mode yet ("full")
CrashInExec(t, k, how) ==
  /\ Live(t) /\ tl[t].pc = "exec"
  /\ LET r == RuleOf(t)
         sc == [j \in DOMAIN r.src |-> IF Has(ws, r.src[j]) THEN ws[r.src[j]].c ELSE "MISSING"]
         runs == r.kind # "fail" /\ (\A j \in DOMAIN r.src : Has(ws, r.src[j])) /\ SeqSet(r.tg) \cap rdir.nodir = {}
         written == {i \in DOMAIN r.tg : i # r.omit}
     IN /\ runs /\ k \in written
        /\ ws' = [p \in (DOMAIN ws) \cup {r.tg[i] : i \in {j \in written : j <= k}} |->
                    IF \E i \in written : i < k /\ r.tg[i] = p
                    THEN [c |-> Out(r, IdxOf(r.tg, p), sc, env), m |-> Stamp(IdxOf(r.tg, p)), x |-> r.x \/ (Has(ws, p) /\ ws[p].x)]
                    ELSE IF p = r.tg[k]
                    THEN [c |-> CASE how = "torn" -> "T[" \o Out(r, k, sc, env) \o "]" [] how = "full" -> Out(r, k, sc, env) [] OTHER -> "",
                          m |-> Stamp(k), x |-> Has(ws, p) /\ ws[p].x]
                    ELSE ws[p]]
        /\ Bump(k)
        /\ VolReset /\ verdict' = "none"
        /\ UNCHANGED <<ord, rules, env, cache, hist, fstab, rdir>>
        /\ Emit([a |-> "crash", inexec |-> RuleId(r)])
\*  - inside directory::init of the invocation that has just started: only a prefix of the directories exists, no table yet
\*    (modelled as an alternative to StartBuild / StartClean: the invocation never gets further)
CrashInInit(n) ==
  /\ Idle /\ ~(rdir.root /\ rdir.cache /\ rdir.hist /\ rdir.tab # "absent")
  /\ rdir' = [rdir EXCEPT !.root = TRUE, !.cache = @ \/ n >= 2, !.hist = @ \/ n >= 3]
  /\ clock' = clock + 1 /\ VolReset /\ verdict' = "none"
  /\ UNCHANGED <<ord, rules, env, ws, cache, hist, fstab>>
  /\ Emit([a |-> "crash", inexec |-> ""])
\*  - pre-repair behaviour ("torn_state"): state files were truncated and rewritten in place
CrashInSave ==
  /\ "torn_state" \in Defects /\ mode = "build"
  /\ \/ /\ mj \in Tids /\ tl[mj].pc = "done" /\ tl[mj].result = "ok" /\ ~IsLeafT(mj)
        /\ rdir' = [rdir EXCEPT !.htorn = @ \cup {RuleId(RuleOf(mj))}] /\ hist' = Del(hist, RuleId(RuleOf(mj))) /\ UNCHANGED fstab
     \/ /\ mj = NL + NN + 1 /\ early = ""
        /\ rdir' = [rdir EXCEPT !.tab = "torn"] /\ fstab' = EmptyF /\ UNCHANGED hist
  /\ VolReset /\ verdict' = "none"
  /\ UNCHANGED <<ord, rules, env, ws, cache, clock>>
  /\ Emit([a |-> "crash", inexec |-> ""])

(* ---------------- scheduling predicates (used by the MC / trace modules) ------- *)
EnabledT(t) == IF mode = "build" THEN Live(t) /\ (tl[t].pc = "recv" => inbox[t][Len(tl[t].got) + 1] # <<>>)
               ELSE mode = "clean" /\ t \in DOMAIN tl /\ tl[t].pc = "cbak"
MainEnabled == \/ mode = "build" /\ ((mj \in Tids /\ tl[mj].pc = "done") \/ mj = NL + NN + 1)
               \/ mode = "clean" /\ ((mj \in DOMAIN tl /\ tl[mj].pc = "done") \/ mj = Len(tl) + 1)
MainStep == Join \/ Finish \/ CleanJoin \/ CleanFinish
AnyThreadStep(t) == ThreadStep(t) \/ CleanStep(t)
\* "the serial schedule": main when it can, else the lowest-numbered enabled thread
SerialPick(t) == ~MainEnabled /\ \A u \in DOMAIN tl : u < t => ~EnabledT(u)

InitCore ==
  /\ env = "e0" /\ cache = EmptyF /\ hist = EmptyF /\ fstab = EmptyF /\ rdir = NoDir
  /\ clock = 1 /\ mode = "idle" /\ goal = "" /\ plan = NoPlan /\ tl = <<>> /\ inbox = <<>> /\ rxAlive = <<>>
  /\ mj = 0 /\ merrs = <<>> /\ mstat = <<>> /\ mfst = EmptyF /\ early = "" /\ verdict = "none"
  /\ ev = [a |-> "init"] /\ g = G0
=============================================================================
