---------------------------- MODULE RulerTrace ----------------------------
(***************************************************************************)
(* Strict validation of traces recorded from the implementation: every     *)
(* logged event must be explained by the corresponding action of Ruler,    *)
(* with every logged field equal to what the action produces, and the full *)
(* projected disk state compared at every return.  All property predicates *)
(* are evaluated in every state of the recorded execution; a failing one   *)
(* is reported (with its line) without stopping the validation.            *)
(***************************************************************************)
EXTENDS RulerProps, Json, IOUtils

VARIABLES l, scn
tvars == <<vars, l, scn>>

Rec == ndJsonDeserialize(IOEnv.TRACE)
E == Rec[l]
Is(a) == l <= Len(Rec) /\ E.a = a /\ l' = l + 1

Match(e, r) == \A f \in DOMAIN e : f \in DOMAIN r /\ e[f] = r[f]

(* ---------------- comparing / loading a logged disk state ------------------- *)
StampsOf(F) == {F[k].m : k \in DOMAIN F}
RankIn(S, m) == IF m = 0 THEN 0 ELSE 1 + Cardinality({s \in S : s < m})
FilesMatch(S0, S1, F, S) == /\ DOMAIN F = DOMAIN S
                            /\ \A k \in DOMAIN F : F[k].c = S[k].c /\ F[k].x = S[k].x /\ RankIn(S0, F[k].m) = RankIn(S1, S[k].m)
\* W, C, H, T, D: workspace, cache, histories, table, ruler directory (passed explicitly so that primed values can be compared)
SM(W, C, H, T, D, s) ==
  LET S0 == (StampsOf(W) \cup StampsOf(C) \cup StampsOf(T)) \ {0}      \* stamps are compared by rank: only their order matters
      S1 == (StampsOf(s.ws) \cup StampsOf(s.cache) \cup StampsOf(s.fstab)) \ {0} IN
  /\ FilesMatch(S0, S1, W, s.ws)
  /\ FilesMatch(S0, S1, C, s.cache)
  /\ DOMAIN H = DOMAIN s.hist
  /\ \A rid \in DOMAIN H : DOMAIN H[rid] = DOMAIN s.hist[rid] /\ \A sh \in DOMAIN H[rid] : H[rid][sh] = s.hist[rid][sh]
  /\ DOMAIN T = DOMAIN s.fstab
  /\ \A p \in DOMAIN T : T[p].h = s.fstab[p].h /\ T[p].x = s.fstab[p].x /\ RankIn(S0, T[p].m) = RankIn(S1, s.fstab[p].m)
  /\ D.root = s.rdir.root /\ D.cache = s.rdir.cache /\ D.hist = s.rdir.hist /\ D.tab = s.rdir.tab
  /\ D.htorn = SeqSet(s.rdir.htorn) /\ D.nodir = SeqSet(s.rdir.nodir)

MaxStamp(s) == LET S == {s.ws[k].m : k \in DOMAIN s.ws} \cup {s.cache[k].m : k \in DOMAIN s.cache} \cup {s.fstab[k].m : k \in DOMAIN s.fstab} \cup {0}
               IN CHOOSE m \in S : \A n \in S : n <= m
LoadDisk(s) ==
  /\ ws' = [p \in DOMAIN s.ws |-> [c |-> s.ws[p].c, m |-> s.ws[p].m, x |-> s.ws[p].x]]
  /\ cache' = [n \in DOMAIN s.cache |-> [c |-> s.cache[n].c, m |-> s.cache[n].m, x |-> s.cache[n].x]]
  /\ hist' = [rid \in DOMAIN s.hist |-> [sh \in DOMAIN s.hist[rid] |-> s.hist[rid][sh]]]
  /\ fstab' = [p \in DOMAIN s.fstab |-> [h |-> s.fstab[p].h, m |-> s.fstab[p].m, x |-> s.fstab[p].x]]
  /\ rdir' = [root |-> s.rdir.root, cache |-> s.rdir.cache, hist |-> s.rdir.hist, tab |-> s.rdir.tab, htorn |-> SeqSet(s.rdir.htorn), nodir |-> SeqSet(s.rdir.nodir)]
  /\ clock' = MaxStamp(s) + 1

(* ---------------- one disjunct per kind of logged event --------------------- *)
TReset ==
  /\ Is("reset") /\ scn' = E.sc
  /\ ord' = E.ord /\ rules' = <<>> /\ env' = "e0"
  /\ ws' = EmptyF /\ cache' = EmptyF /\ hist' = EmptyF /\ fstab' = EmptyF /\ rdir' = NoDir /\ clock' = 1
  /\ VolReset /\ verdict' = "none" /\ ev' = [a |-> "init"] /\ g' = G0

TLoad ==      \* crash scenarios start from the state the interrupted invocation started from
  /\ Is("load") /\ Idle /\ LoadDisk(E.state)
  /\ UNCHANGED <<ord, rules, env, vol, verdict, scn>>
  /\ ev' = [a |-> "load"] /\ g' = g

TCrash ==     \* the steps between the start and the kill are not replayed: the snapshot is loaded
  /\ Is("crash") /\ mode # "idle" /\ LoadDisk(E.state)
  /\ VolReset /\ verdict' = "none" /\ UNCHANGED <<ord, rules, env, scn>>
  /\ ev' = [a |-> "crash", inexec |-> E.inexec, taken |-> E.taken]
  /\ g' = Fold(g, ev', ws', cache', hist', fstab', rdir', {})

\* the state an invocation starts from is logged too (crash scenarios omit it)
PreMatch == IF Has(E, "state") /\ ~SM(ws, cache, hist, fstab, rdir, E.state)
            THEN PrintT(<<"STATE-MISMATCH", scn, l, [ws |-> ws, cache |-> cache, hist |-> hist, fstab |-> fstab, rdir |-> rdir]>>) /\ FALSE
            ELSE TRUE
TUser ==
  /\ UNCHANGED scn
  /\ \/ Is("rules") /\ SetRules(E.rules)
     \/ Is("edit") /\ Edit(E.p, E.c)
     \/ Is("del") /\ DelFile(E.p)
     \/ Is("delcache") /\ DelCache(E.n)
     \/ Is("delruler") /\ DelRuler(E.what)
     \/ Is("env") /\ ChangeEnv(E.v)
     \/ Is("mv") /\ Move(E.p, E.q)
     \/ Is("corrupt") /\ Corrupt(E.what, E.rid)
     \/ Is("rmdir") /\ RmDir(E.d, SeqSet(E.ps))
     \/ Is("mkdir") /\ MkDir(E.d, SeqSet(E.ps))
     \/ Is("build") /\ PreMatch /\ StartBuildWith(E.g, fstab, IF Has(E, "serial") THEN [serial |-> E.serial] ELSE EmptyF)
     \/ Is("clean") /\ PreMatch /\ StartClean(E.g)

TStep ==
  /\ Is("step") /\ UNCHANGED scn /\ IsName(E.t)
  /\ LET t == TidOfName(E.t) IN
     /\ CASE E.op = "send" -> Send(t)
          [] E.op = "recv" -> Recv(t)
          [] E.op = "bak"  -> IF mode = "clean" THEN CleanStep(t) ELSE Backup(t)
          [] E.op = "chk"  -> Check(t)
          [] E.op = "take" -> Take(t)
          [] E.op = "exec" -> Exec(t)
          [] OTHER -> FALSE
     /\ Match(ev', E)

TJoin ==
  /\ Is("join") /\ UNCHANGED scn
  /\ (Join \/ CleanJoin)
  /\ Match(ev', E)

TRet ==
  /\ Is("ret") /\ UNCHANGED scn
  /\ (Finish \/ CleanFinish)
  /\ Match(ev', E)
  /\ IF SM(ws', cache', hist', fstab', rdir', E.state) THEN TRUE
     ELSE PrintT(<<"STATE-MISMATCH", scn, l, [ws |-> ws', cache |-> cache', hist |-> hist', fstab |-> fstab', rdir |-> rdir']>>) /\ FALSE

TInit ==
  /\ InitCore /\ ord = <<>> /\ rules = <<>> /\ ws = EmptyF
  /\ l = 1 /\ scn = ""

TNext == TReset \/ TLoad \/ TCrash \/ TUser \/ TStep \/ TJoin \/ TRet

(* ---------------- properties: reported, not fatal --------------------------- *)
Chk(name, P) == P \/ PrintT(<<"VIOLATED", name, scn, l - 1>>)
LastRec == Rec[l - 1]
\* observations only the harness can make
T_C05_ThreadPanics == (l > 1 /\ LastRec.a = "ret") => LastRec.panics = <<>>
T_C08_NoOverwrite == (l > 1 /\ LastRec.a = "ret" /\ Distinct) => LastRec.overw = <<>>
T_C09_Touched == (l > 1 /\ LastRec.a = "ret") => SeqSet(LastRec.touched) \subseteq Scope
T_C18_Twin == (l > 1 /\ LastRec.a = "ret" /\ Has(LastRec, "twin") /\ ~g.dirgone) =>     \* (the two runs of a history in which a directory was removed may drift apart, see C06_SameAsSerial)
                 /\ LastRec.twin.verdict = LastRec.verdict
                 /\ SameFn(LastRec.twin.ws, WsContents)

AllProps ==
  /\ Chk("C01_ScratchEqual", C01_ScratchEqual)
  /\ Chk("C02_AtMostOnce", C02_AtMostOnce) /\ Chk("C02_NoNeedlessRun", C02_NoNeedlessRun) /\ Chk("C02_RepeatIsNoOp", C02_RepeatIsNoOp)
  /\ Chk("C03_SourcesFinal", C03_SourcesFinal) /\ Chk("C03_ProducersDone", C03_ProducersDone)
  /\ Chk("C04_ErrorsExact", C04_ErrorsExact) /\ Chk("C04_DependentsDoNotRun", C04_DependentsDoNotRun)
  /\ Chk("C04_OthersStillBuilt", C04_OthersStillBuilt) /\ Chk("C04_NothingRemembered", C04_NothingRemembered) /\ Chk("C04_TriedAgain", C04_TriedAgain)
  /\ Chk("C05_Returns", C05_Returns) /\ Chk("C05_NoChannelError", C05_NoChannelError) /\ Chk("C05_ThreadPanics", T_C05_ThreadPanics)
  /\ Chk("C06_SameAsSerial", C06_SameAsSerial)
  /\ Chk("C07_ContentAddressed", C07_ContentAddressed)
  /\ Chk("C08_NothingLost", C08_NothingLost) /\ Chk("C08_NoOverwrite", T_C08_NoOverwrite)
  /\ Chk("C09_OnlyScopeTouched", C09_OnlyScopeTouched) /\ Chk("C09_Touched", T_C09_Touched) /\ Chk("C09_NoDirMade", C09_NoDirMade)
  /\ Chk("C10_CleanMovesToCache", C10_CleanMovesToCache) /\ Chk("C10_BuildBringsBack", C10_BuildBringsBack)
  /\ Chk("C11_CrashStateSane", C11_CrashStateSane) /\ Chk("C11_Recovers", C11_Recovers)
  /\ Chk("C12_InvalidRejected", C12_InvalidRejected) /\ Chk("C16_DamagedRejected", C16_DamagedRejected)
  /\ Chk("C17_ContradictionReported", C17_ContradictionReported) /\ Chk("C17_HistoryKept", C17_HistoryKept) /\ Chk("C17_OthersUnaffected", C17_OthersUnaffected)
  /\ Chk("C18_Twin", T_C18_Twin)
  /\ Chk("C20_StatusTruth", C20_StatusTruth) /\ Chk("C20_FailuresOnce", C20_FailuresOnce)

Accepted == IF TLCGet("stats").diameter - 1 = Len(Rec) THEN PrintT(<<"ACCEPTED", Len(Rec)>>)
            ELSE PrintT(<<"REJECTED", TLCGet("stats").diameter, Rec[TLCGet("stats").diameter]>>)
=============================================================================
