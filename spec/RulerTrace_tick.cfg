CONSTANTS
  Defects = {}
  ClockModel = "tick"
INIT TInit
NEXT TNext
INVARIANT AllProps
POSTCONDITION Accepted
CHECK_DEADLOCK FALSE
