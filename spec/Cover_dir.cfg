CONSTANTS
  Defects = {}
  ClockModel = "distinct"
  Ord0 <- mcOrd
  Menu <- mcMenu
  Init0 <- mcInit
  DirPaths <- mcDirs
  SrcVals = {"S0", "S1"}
  UserActs = {"edit", "build", "clean", "rmdir", "mkdir", "deltarget"}
  Goals = {""}
  MaxUser = 5
  FreeFrom = 99
  Script <- NoScript
INIT GInit
NEXT GNext
VIEW EdgeViewG
CHECK_DEADLOCK FALSE
INVARIANTS EmitHeader EmitDone
