---- MODULE Gen_dir ----
EXTENDS Gen, MC_dir
====
