---- MODULE ServerTrace ----
(* evaluates the oracle of Server.tla on every record (input, output of the real code) of IOEnv.TRACE *)
EXTENDS Server
VARIABLE l
Rec == ndJsonDeserialize(IOEnv.TRACE)
Init == l = 1
Next == l <= Len(Rec) /\ l' = l + 1
Judge == (l > 1) => (Allowed(Rec[l - 1]) \/ PrintT(<<"VIOLATED", "C19_Server", Rec[l - 1].id, l - 1>>))
Accepted == IF TLCGet("stats").diameter - 1 = Len(Rec) THEN PrintT(<<"ACCEPTED", Len(Rec)>>)
            ELSE PrintT(<<"REJECTED", TLCGet("stats").diameter>>)
====
