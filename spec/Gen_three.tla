---- MODULE Gen_three ----
EXTENDS Gen, MC_three
====
