---- MODULE MC_dotdot ----
EXTENDS MC
\* a source outside the project, ../o/u, next to an unrelated rule whose target is o/u: two different files; builds and cleans restricted
\* to app must leave o/u and its rule alone
mcOrd == <<"../o/u", "app", "o/u", "s", "s2">>
mcMenu == << << Rl(<<"app">>, <<"../o/u", "s">>, "fn", "c1"), Rl(<<"o/u">>, <<"s2">>, "copy", "c2") >> >>
mcInit == << <<"../o/u", "S0">>, <<"s", "S0">>, <<"s2", "S0">> >>
mcScriptDots == << <<"build", "">>, <<"edit", "s2", "S1">>, <<"build", "app">>, <<"clean", "app">>, <<"edit", "../o/u", "S1">>, <<"build", "app">>, <<"build", "">> >>
====
