CONSTANTS
  Defects = {}
  ClockModel = "distinct"
  Ord0 <- mcOrd
  Menu <- mcMenu
  Init0 <- mcInit
  SrcVals = {"S0", "S1"}
  UserActs = {"edit", "build", "clean", "tamper", "deltarget", "delcache"}
  Goals = {""}
  MaxUser = 5
  FreeFrom = 99
  Script <- mcScriptRevertC
INIT GInit
NEXT GNext
CHECK_DEADLOCK FALSE
INVARIANTS EmitHeader EmitDone
