INIT Init
NEXT Next
INVARIANT Injective
INVARIANT Count
CHECK_DEADLOCK FALSE
