CONSTANTS
  Defects = {}
  ClockModel = "distinct"
  Ord0 <- mcOrd
  Menu <- mcMenu
  Init0 <- mcInit
  SrcVals = {"S0", "S1"}
  UserActs = {"edit", "build", "clean", "tamper", "deltarget", "rules"}
  Goals = {""}
  MaxUser = 4
  FreeFrom = 99
  Script <- NoScript
INIT GInit
NEXT GNext
VIEW EdgeViewG
CHECK_DEADLOCK FALSE
INVARIANTS EmitHeader EmitDone
