CONSTANTS
  Defects = {}
  ClockModel = "distinct"
  Ord0 <- mcOrd
  Menu <- mcMenuE
  Init0 <- mcInit
  SrcVals = {"S0", "S1"}
  UserActs = {"edit", "build", "clean", "rules", "deltarget", "delcache"}
  Goals = {"", "q"}
  MaxUser = 5
  FreeFrom = 99
  Script <- NoScript
INIT Init
NEXT Next
VIEW View
CHECK_DEADLOCK FALSE
INVARIANTS
  C01_ScratchEqual C02_AtMostOnce C02_NoNeedlessRun C02_RepeatIsNoOp C03_SourcesFinal C03_ProducersDone
  C04_ErrorsExact C04_DependentsDoNotRun C04_OthersStillBuilt C04_NothingRemembered C04_TriedAgain
  C05_Returns C05_NoChannelError C05_NoDeadlock C07_ContentAddressed C08_NothingLost
  C09_OnlyScopeTouched C10_CleanMovesToCache C10_BuildBringsBack C11_CrashStateSane C11_Recovers
  C17_ContradictionReported C17_HistoryKept C17_OthersUnaffected C20_StatusTruth C20_FailuresOnce Aux_TableTruth Aux_SentTruth 
