---- MODULE Ticket ----
(* What ruler calls a ticket (ticket.rs): the SHA-256 of a file's bytes, of the bytes fed to a TicketFactory, or of a  *)
(* directory (sorted listing of the full paths joined by newlines, followed by the 32-byte ticket of every entry, in      *)
(* listing order, directories recursively), and its 43-character text form.  Property C15, decided on records of the     *)
(* real code (TicketTrace.tla):                                                                                           *)
(*   file / chunks : every reported text (one per path / age / read pattern tried) is Encode(Digest(bytes))               *)
(*   enc           : 43 characters, exactly the base-62 form, and it decodes back to the same 256-bit value               *)
(*   dec           : Ok(v) exactly for the encodings of 256-bit values, with the right v; everything else is rejected     *)
(*   dirpair       : two directory trees hashed at the same path get the same ticket exactly when they are the same tree  *)
(*                   (names, structure, contents; ages do not count) - modulo SHA-256 collisions                          *)
(* DirDigest is what the current code computes; a directory record that differs from it is a DIVERGENCE (the hashing      *)
(* scheme was changed), not a violation, as long as the pair rule holds.                                                  *)
EXTENDS Sha256, Base62, FiniteSets

NB == 32
ND == 43
Text(m) == Encode(Digest(m), ND)       \* the 32 digest bytes, read as a little-endian number

\* byte-wise lexicographic order (Rust's String order)
LexLess(a, b) == \E k \in 1..(Len(a) + 1) :
                    /\ \A j \in 1..(k - 1) : j <= Len(b) /\ a[j] = b[j]
                    /\ \/ (k = Len(a) + 1 /\ Len(b) >= k)
                       \/ (k <= Len(a) /\ k <= Len(b) /\ a[k] < b[k])

\* DirDigest(path, children), Flatten, SameTree: DirHash.tla with SHA-256 over byte sequences
INSTANCE DirHash WITH D <- Digest, Less <- LexLess, Nl <- <<10>>, Slash <- <<47>>, Nil <- <<>>

IsText(t) == Len(t) = ND /\ \A i \in 1..ND : DigitOf(t[i]) < 62

Allowed(r) ==
    CASE r.kind = "file"    -> LET t == Text(r.bytes) IN \A i \in 1..Len(r.outs) :
                                  IF r.outs[i].fault THEN r.outs[i].ok => r.outs[i].out = t       \* an injected read error may be reported as an error
                                  ELSE r.outs[i].ok /\ r.outs[i].out = t
      [] r.kind = "chunks"  -> r.out = Text(Flatten(r.chunks))
      [] r.kind = "enc"     -> r.out = Encode(r.sha, ND) /\ r.back = r.sha
      [] r.kind = "dec"     -> LET d == Decode(r.chars, r.blen, NB, ND) IN
                               IF d.ok THEN r.ok /\ r.sha = d.le ELSE ~r.ok
      [] r.kind = "dirpair" -> \* odd: a name that is not UTF-8 is involved - ruler may refuse to hash such a directory
                               LET both == r.ok1 /\ r.ok2 IN
                               /\ r.odd \/ both
                               /\ both => /\ IsText(r.h1) /\ IsText(r.h2)
                                          /\ (SameTree(r.t1, r.t2) <=> r.h1 = r.h2)
      [] OTHER -> FALSE

\* the hashing scheme of the current code
Conforms(r) == (r.kind = "dirpair" /\ r.ok1 /\ r.ok2) => /\ r.h1 = Encode(DirDigest(r.root, r.t1), ND)
                                     /\ r.h2 = Encode(DirDigest(r.root, r.t2), ND)
====
