CONSTANTS
  Defects = {}
  ClockModel = "distinct"
  Ord0 <- mcOrd
  Menu <- mcMenu
  Init0 <- mcInit
  SrcVals = {"S0", "S1"}
  UserActs = {"edit", "build", "clean", "rules", "tamper", "deltarget"}
  Goals = {"", "z", "c"}
  MaxUser = 9
  FreeFrom = 99
  Script <- mcScriptAllGoal
INIT GInit
NEXT GNext
CHECK_DEADLOCK FALSE
INVARIANTS EmitHeader EmitDone
