---- MODULE MC_fail ----
EXTENDS MC
\* fan-in with failing rules at various positions:  p <- a,  q <- b,  z <- p,q,  w <- z;  menus move the failure around
mcOrd == <<"a", "b", "p", "q", "w", "z">>
P(k) == Rl(<<"p">>, <<"a">>, k, "c1")
Q(k) == Rl(<<"q">>, <<"b">>, k, "c2")
Z(k) == Rl(<<"z">>, <<"p", "q">>, k, "c3")
W(k) == Rl(<<"w">>, <<"z">>, k, "c4")
mcMenu == << << P("fn"), Q("fn"), W("fn"), Z("fn") >>,
             << P("fail"), Q("fn"), W("fn"), Z("fn") >>,
             << P("fn"), Q("fn"), W("fn"), Z("fail") >>,
             << P("fail"), Q("fail"), W("fn"), Z("fn") >>,
             << P("fn"), MkRule(<<"q">>, <<"b">>, "fn", "c2", 1, <<>>, FALSE, FALSE), W("fn"), Z("fn") >>,
             << MkRule(<<"p">>, <<"a">>, "fn", "c1", 0, <<>>, FALSE, TRUE), Q("fn"), W("fn"), Z("fn") >>,
             << P("fn"), Killed(MkRule(<<"q">>, <<"b">>, "fn", "c2", 0, <<>>, FALSE, TRUE)), W("fn"), Z("fn") >> >>
mcInit == << <<"a", "S0">>, <<"b", "S0">> >>
====
