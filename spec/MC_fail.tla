---- MODULE MC_fail ----
EXTENDS MC
\* fan-in with failing rules at various positions:  p <- a,  q <- b,  z <- p,q,  w <- z;  menus move the failure around
mcOrd == <<"a", "b", "p", "q", "v", "w", "y", "z">>
P(k) == Rl(<<"p">>, <<"a">>, k, "c1")
Q(k) == Rl(<<"q">>, <<"b">>, k, "c2")
Z(k) == Rl(<<"z">>, <<"p", "q">>, k, "c3")
W(k) == Rl(<<"w">>, <<"z">>, k, "c4")
\* v depends on a rule (p) and, later in sorted order, directly on a leaf (y): a cancel from p can arrive before y has reported
V == Rl(<<"v">>, <<"p", "y">>, "fn", "c5")
mcMenu == << << P("fn"), Q("fn"), V, W("fn"), Z("fn") >>,
             << P("fail"), Q("fn"), V, W("fn"), Z("fn") >>,
             << P("fn"), Q("fn"), V, W("fn"), Z("fail") >>,
             << P("fail"), Q("fail"), V, W("fn"), Z("fn") >>,
             << P("fn"), MkRule(<<"q">>, <<"b">>, "fn", "c2", 1, <<>>, FALSE, FALSE), V, W("fn"), Z("fn") >>,
             << MkRule(<<"p">>, <<"a">>, "fn", "c1", 0, <<>>, FALSE, TRUE), Q("fn"), V, W("fn"), Z("fn") >>,
             << P("fn"), Killed(MkRule(<<"q">>, <<"b">>, "fn", "c2", 0, <<>>, FALSE, TRUE)), V, W("fn"), Z("fn") >> >>
mcInit == << <<"a", "S0">>, <<"b", "S0">>, <<"y", "S0">> >>
mcScriptCancelRace == << <<"rules", 2>>, <<"del", "y">>, <<"build", "">> >>
mcScriptTwoMissing == << <<"del", "y">>, <<"del", "a">>, <<"build", "">> >>
====
