---- MODULE Gen_diamond ----
EXTENDS Gen, MC_diamond
mcScriptTamper == << <<"build", "">>, <<"edit", "p", "J">>, <<"del", "q">>, <<"build", "">> >>
CexErrors == Cex("C04_ErrorsExact", C04_ErrorsExact)
====
