---- MODULE Gen_diamond ----
EXTENDS Gen
mcOrd == <<"a", "b", "p", "q", "z">>
mcMenu == << << Rl(<<"p">>, <<"a">>, "copy", "c1"), Rl(<<"q">>, <<"b">>, "copy", "c2"), Rl(<<"z">>, <<"p", "q">>, "fn", "c3") >> >>
mcInit == << <<"a", "S0">>, <<"b", "S0">> >>
mcScriptBCB == << <<"build", "">>, <<"clean", "">>, <<"build", "">> >>
mcScriptEdit == << <<"build", "">>, <<"edit", "a", "S1">>, <<"build", "">>, <<"edit", "a", "S0">>, <<"build", "">> >>
mcScriptTamper == << <<"build", "">>, <<"edit", "p", "J">>, <<"del", "q">>, <<"build", "">> >>
====
