---- MODULE Gen_diamond ----
EXTENDS Gen, MC_diamond
mcScriptTamper == << <<"build", "">>, <<"edit", "p", "J">>, <<"del", "q">>, <<"build", "">> >>
====
