---- MODULE Gen_diamond ----
EXTENDS Gen, MC_diamond
mcScriptEdit2 == << <<"build", "">>, <<"edit", "a", "S1">>, <<"edit", "b", "S1">>, <<"build", "">> >>
mcScriptTamper == << <<"build", "">>, <<"edit", "p", "J">>, <<"del", "q">>, <<"build", "">> >>
CexErrors == Cex("C04_ErrorsExact", C04_ErrorsExact)
====
