CONSTANTS
  Defects = {}
  ClockModel = "tick"
  Ord0 <- mcOrd
  Menu <- mcMenu
  Init0 <- mcInit
  SrcVals = {"S0", "S1"}
  UserActs = {"edit", "build", "clean", "deltarget"}
  Goals = {"", "q", "p2"}
  MaxUser = 5
  Script <- NoScript
INIT Init
NEXT Next
CHECK_DEADLOCK FALSE
INVARIANT C18_SameWithoutTable
