---- MODULE Gen_chain ----
EXTENDS Gen, MC_chain
mcScriptCrash == << <<"build", "">>, <<"edit", "s", "S1">>, <<"build", "">> >>
mcScriptCrash2 == << <<"build", "">>, <<"clean", "">>, <<"build", "">> >>
mcScriptCrash0 == << <<"build", "">> >>
mcScriptDrop == << <<"rules", 3>>, <<"build", "">>, <<"rules", 1>>, <<"clean", "">>, <<"build", "">> >>
mcScriptDrop2 == << <<"rules", 3>>, <<"build", "">>, <<"rules", 1>>, <<"build", "q">>, <<"clean", "q">>, <<"build", "">> >>
mcScriptEmpty == << <<"build", "">>, <<"build", "">>, <<"clean", "">>, <<"build", "">>, <<"edit", "s", "S1">>, <<"build", "">>, <<"clean", "q">>, <<"build", "q">>, <<"rules", 2>>, <<"build", "">>, <<"clean", "">>, <<"build", "">> >>
====
