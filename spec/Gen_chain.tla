---- MODULE Gen_chain ----
EXTENDS Gen, MC_chain
mcScriptCrash == << <<"build", "">>, <<"edit", "s", "S1">>, <<"build", "">> >>
mcScriptCrash2 == << <<"build", "">>, <<"clean", "">>, <<"build", "">> >>
mcScriptCrash0 == << <<"build", "">> >>
====
