---- MODULE Gen_chain ----
EXTENDS Gen, MC_chain
====
