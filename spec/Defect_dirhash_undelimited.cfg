CONSTANT Undelimited = TRUE
INIT Init
NEXT Next
INVARIANT Inv
CHECK_DEADLOCK FALSE
