---- MODULE Gen_both ----
EXTENDS Gen, MC_both
====
