CONSTANTS
  Defects = {}
  ClockModel = "distinct"
  Ord0 <- mcOrd
  Menu <- mcMenu
  Init0 <- mcInit
  SrcVals = {"S0", "S1"}
  UserActs = {"build", "rules", "delleaf"}
  Goals = {""}
  MaxUser = 2
  FreeFrom = 0
  Script <- NoScript
SPECIFICATION LiveSpec
PROPERTY Terminates
CHECK_DEADLOCK FALSE
INVARIANTS
  C05_Returns C05_NoChannelError C05_NoDeadlock
