---- MODULE TicketTrace ----
(* evaluates the oracle of Ticket.tla on every record (input, output of the real code) of IOEnv.TRACE *)
EXTENDS Ticket, Json, IOUtils, TLC
VARIABLE l
Rec == ndJsonDeserialize(IOEnv.TRACE)
Init == l = 1
Next == l <= Len(Rec) /\ l' = l + 1
Judge == (l > 1) => /\ (Allowed(Rec[l - 1]) \/ PrintT(<<"VIOLATED", "C15_Ticket", Rec[l - 1].id, l - 1>>))
                    /\ (Conforms(Rec[l - 1]) \/ PrintT(<<"DIVERGED", "DirDigest", Rec[l - 1].id, l - 1>>))
Accepted == IF TLCGet("stats").diameter - 1 = Len(Rec) THEN PrintT(<<"ACCEPTED", Len(Rec)>>)
            ELSE PrintT(<<"REJECTED", TLCGet("stats").diameter>>)
====
