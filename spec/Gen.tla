-------------------------------- MODULE Gen --------------------------------
(* TLC as a generator of behaviours for replay into the implementation.  `tr` is the replay script of the   *)
(* behaviour so far (user-level actions and, inside an invocation, the name of the thread that moves).       *)
(* EdgeView keeps `tr` out of the fingerprint but the last event in: TLC then keeps one path to every        *)
(* (event, resulting state) pair of the state graph - a transition cover - and EmitPrefix prints each path.  *)
EXTENDS MC, Json

VARIABLE tr
gvars == <<vars, tr>>

StepOf(e) == CASE e.a = "step" -> <<[a |-> "pick", t |-> e.t]>>
               [] e.a = "join" -> <<[a |-> "pick", t |-> "main"]>>
               [] e.a \in {"ret", "crash", "init"} -> <<>>
               [] OTHER -> <<e>>
GInit == Init /\ tr = <<>>
GNext == Next /\ tr' = tr \o StepOf(ev')

EdgeView == <<rules, env, NM(ws), NM(cache), hist, NM(fstab), rdir, ClockView, mode, goal, plan, TlView, inbox, rxAlive,
              mj, merrs, mstat, NM(mfst), early, verdict, ev, g.nuser>>

\* finer: the ghost record (pre-state of the invocation, what was backed up / taken / executed) also distinguishes paths
EdgeViewG == <<EdgeView, GView>>

EmitHeader == (ev.a = "init") => PrintT(<<"SCENARIO", ToJson([ord |-> Ord0, menu |-> Menu, init |-> Init0, clock |-> ClockModel])>>)
\* a counterexample of the model (with a Defects switch on) as a replay script: printed when P fails
Cex(name, P) == P \/ (PrintT(<<"PREFIX", ToJson(tr)>>) /\ FALSE)
EmitPrefix == (Free /\ mode # "idle") => PrintT(<<"PREFIX", ToJson(tr)>>)
\* for simulation mode: one complete behaviour per line
EmitDone == (mode = "idle" /\ g.nuser = MaxUser) => PrintT(<<"PREFIX", ToJson(tr)>>)
=============================================================================
