-------------------------------- MODULE Gen --------------------------------
(* TLC as a generator of behaviours for replay into the implementation.  `tr` is the replay script of the   *)
(* behaviour so far (user-level actions and, inside an invocation, the name of the thread that moves).       *)
(* EdgeView keeps `tr` out of the fingerprint but the last event in: TLC then keeps one path to every        *)
(* (event, resulting state) pair of the state graph - a transition cover - and EmitPrefix prints each path.  *)
EXTENDS MC, Json

VARIABLE tr
gvars == <<vars, tr>>

StepOf(e) == CASE e.a = "step" -> <<[a |-> "pick", t |-> e.t]>>
               [] e.a = "join" -> <<[a |-> "pick", t |-> "main"]>>
               [] e.a \in {"ret", "crash", "init"} -> <<>>
               [] OTHER -> <<e>>
GInit == Init /\ tr = <<>>
GNext == Next /\ tr' = tr \o StepOf(ev')

EdgeView == <<rules, env, NM(ws), NM(cache), hist, NM(fstab), rdir, ClockView, mode, goal, plan, TlView, inbox, rxAlive,
              mj, merrs, mstat, NM(mfst), early, verdict, ev, g.nuser>>

\* finer: the ghost record (pre-state of the invocation, what was backed up / taken / executed) also distinguishes paths
EdgeViewG == <<EdgeView, GView>>

EmitHeader == (ev.a = "init") => PrintT(<<"SCENARIO", ToJson([ord |-> Ord0, menu |-> Menu, init |-> Init0, clock |-> ClockModel])>>)
\* a counterexample of the model (with a Defects switch on) as a replay script: printed when P fails
Cex(name, P) == P \/ (PrintT(<<"PREFIX", ToJson(tr)>>) /\ FALSE)
EmitPrefix == (Free /\ mode # "idle") => PrintT(<<"PREFIX", ToJson(tr)>>)
\* the disk state at a crash, without stamps, for comparison with the crash snapshots of the implementation
NoStamp(F) == [k \in DOMAIN F |-> [c |-> F[k].c, x |-> F[k].x]]
\* (a kill after the last write of an invocation leaves the state of the completed invocation: "ret" states count too)
EmitCrash == (ev.a = "crash" \/ (ev.a = "ret" /\ Script # <<>> /\ g.nuser = Len(Script))) =>
   PrintT(<<"CRASHSTATE", ToJson([ws |-> NoStamp(ws), cache |-> NoStamp(cache), hist |-> hist,
                                   fstab |-> [k \in DOMAIN fstab |-> [h |-> fstab[k].h, x |-> fstab[k].x]],
                                   rdir |-> [root |-> rdir.root, cache |-> rdir.cache, hist |-> rdir.hist, tab |-> rdir.tab]])>>)
\* for simulation mode: one complete behaviour per line
EmitDone == (mode = "idle" /\ g.nuser = MaxUser) => PrintT(<<"PREFIX", ToJson(tr)>>)
=============================================================================
