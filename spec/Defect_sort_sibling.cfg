CONSTANTS
  T <- mcT
  Fixed = FALSE
INIT Init
NEXT Next
INVARIANT Conforms
CHECK_DEADLOCK FALSE
