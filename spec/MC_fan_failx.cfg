CONSTANTS
  Defects = {}
  ClockModel = "distinct"
  Ord0 <- mcOrd
  Menu <- mcMenu
  Init0 <- mcInit
  SrcVals = {"S0", "S1"}
  UserActs = {"build", "clean", "rules", "delleaf"}
  Goals = {"", "y2"}
  MaxUser = 2
  FreeFrom = 1
  Script <- mcScriptRB3
INIT Init
NEXT Next
VIEW View
CHECK_DEADLOCK FALSE
INVARIANTS
  C01_ScratchEqual C02_AtMostOnce C02_NoNeedlessRun C03_SourcesFinal C03_ProducersDone
  C04_ErrorsExact C04_DependentsDoNotRun C04_OthersStillBuilt C04_NothingRemembered C04_TriedAgain
  C05_Returns C05_NoChannelError C05_NoDeadlock C07_ContentAddressed C08_NothingLost C09_OnlyScopeTouched C20_StatusTruth C20_FailuresOnce OutcomeProbe
