CONSTANTS
  Defects = {"restore_race"}
  ClockModel = "distinct"
  Ord0 <- mcOrd
  Menu <- mcMenu
  Init0 <- mcInit
  SrcVals = {"S0", "S1"}
  UserActs = {"build", "clean"}
  Goals = {""}
  MaxUser = 3
  FreeFrom = 3
  Script <- mcScriptBCB
INIT GInit
NEXT GNext
CHECK_DEADLOCK FALSE
INVARIANTS EmitHeader CexErrors
