CONSTANTS
  Defects = {}
  ClockModel = "tick"
INIT TInit
NEXT ONext
INVARIANT ObsProps
POSTCONDITION Accepted
CHECK_DEADLOCK FALSE
