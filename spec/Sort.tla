------------------------------- MODULE Sort -------------------------------
(***************************************************************************)
(* C12.  (a) A declarative oracle for dependency analysis: when must it    *)
(* accept, which error kinds apply when it must not, and what a valid plan *)
(* is.  (b) SortTrace (below, same module) evaluates the oracle on records *)
(* (input, output of the real topological_sort[_all]) written by the       *)
(* harness.  The transcription of the implementation's iterative DFS that  *)
(* is model-checked against (a) lives in SortImpl.tla.                     *)
(***************************************************************************)
EXTENDS Naturals, Sequences, FiniteSets, TLC, Json, IOUtils, SequencesExt

Has2(r, f) == f \in DOMAIN r
SeqSet(s) == {s[i] : i \in DOMAIN s}
IdxOf(s, e) == CHOOSE i \in DOMAIN s : s[i] = e

\* rs: sequence of rules [tg |-> Seq(path), src |-> Seq(path)]; gl: goal path or ""
Targets(rs) == UNION {SeqSet(rs[k].tg) : k \in DOMAIN rs}
DupTarget(rs) == \E j, k \in DOMAIN rs : j # k /\ SeqSet(rs[j].tg) \cap SeqSet(rs[k].tg) # {}
GoalMissing(rs, gl) == gl # "" /\ gl \notin Targets(rs)
DepOn(rs, k) == {j \in DOMAIN rs : SeqSet(rs[j].tg) \cap SeqSet(rs[k].src) # {}}
RECURSIVE ReachFrom(_, _, _)
ReachFrom(rs, S, seen) == LET new == (UNION {DepOn(rs, i) : i \in S}) \ seen IN
                          IF new = {} THEN seen ELSE ReachFrom(rs, new, seen \cup new)
Scope(rs, gl) == IF gl = "" THEN DOMAIN rs
                 ELSE LET k == CHOOSE k \in DOMAIN rs : gl \in SeqSet(rs[k].tg) IN ReachFrom(rs, {k}, {k})
Below(rs, i) == ReachFrom(rs, {i}, {})          \* strict descendants; contains i exactly when i lies on a cycle
CycleReachable(rs, gl) == \E i \in Scope(rs, gl) : i \in Below(rs, i)
SelfReachable(rs, gl) == \E i \in Scope(rs, gl) : i \in DepOn(rs, i)

MustAccept(rs, gl) == ~DupTarget(rs) /\ ~GoalMissing(rs, gl) /\ ~CycleReachable(rs, gl)
\* the error kinds that "match" a rejected input (several may apply; any of them is a correct report)
Applicable(rs, gl) ==
  (IF DupTarget(rs) THEN {"TargetInMultipleRules"} ELSE {})
  \cup (IF ~DupTarget(rs) /\ GoalMissing(rs, gl) THEN {"TargetMissing"} ELSE {})
  \cup (IF ~DupTarget(rs) /\ ~GoalMissing(rs, gl) /\ CycleReachable(rs, gl) THEN {"CircularDependence"} ELSE {})
  \cup (IF ~DupTarget(rs) /\ ~GoalMissing(rs, gl) /\ SelfReachable(rs, gl) THEN {"SelfDependentRule"} ELSE {})

\* a plan: [leaves |-> Seq(path), nodes |-> Seq([tg |-> Seq(path), si |-> Seq(<<"L", i>> | <<"P", i, sub>>)])], indices 0-based as in the code
SortedBy(ord, s) == \A i, j \in DOMAIN s : i < j => IdxOf(ord, s[i]) < IdxOf(ord, s[j])
ValidPlan(rs, gl, ord, plan) ==
  LET sc == Scope(rs, gl)
      leafset == (UNION {SeqSet(rs[k].src) : k \in sc}) \ Targets(rs) IN
  /\ SeqSet(plan.leaves) = leafset /\ Len(plan.leaves) = Cardinality(leafset) /\ SortedBy(ord, plan.leaves)
  /\ Len(plan.nodes) = Cardinality(sc)
  /\ \A k \in sc : \E n \in DOMAIN plan.nodes : SeqSet(plan.nodes[n].tg) = SeqSet(rs[k].tg)       \* exactly the rules in scope, each once
  /\ \A n \in DOMAIN plan.nodes :
        LET nd == plan.nodes[n]
            k == CHOOSE k \in DOMAIN rs : SeqSet(rs[k].tg) = SeqSet(nd.tg)
            srcs == SetToSortSeq(SeqSet(rs[k].src), LAMBDA a, b : IdxOf(ord, a) < IdxOf(ord, b)) IN
        /\ SortedBy(ord, nd.tg) /\ Len(nd.tg) = Cardinality(SeqSet(rs[k].tg))
        /\ Len(nd.si) = Len(srcs)
        /\ \A j \in DOMAIN srcs :
              IF srcs[j] \in Targets(rs)
              THEN /\ nd.si[j][1] = "P"
                   /\ nd.si[j][2] + 1 < n                                                       \* an earlier node
                   /\ nd.si[j][3] + 1 \in DOMAIN plan.nodes[nd.si[j][2] + 1].tg
                   /\ plan.nodes[nd.si[j][2] + 1].tg[nd.si[j][3] + 1] = srcs[j]                 \* the right target of it
              ELSE /\ nd.si[j][1] = "L"
                   /\ nd.si[j][2] + 1 \in DOMAIN plan.leaves /\ plan.leaves[nd.si[j][2] + 1] = srcs[j]

\* the judgement on one record of the real code
Allowed(rec) ==
  LET rs == rec.rules  gl == rec.goal IN
  /\ rec.out.ok = MustAccept(rs, gl)
  /\ rec.out.ok => ValidPlan(rs, gl, rec.ord, rec.out.plan)
  /\ ~rec.out.ok => rec.out.kind \in Applicable(rs, gl)
  /\ (Has2(rec, "out2")) => rec.out2 = rec.out        \* the same rules in another input order give the same answer

=============================================================================
