---- MODULE MC_chain ----
EXTENDS MC
\* chain  s -> p -> q  (p copies, q = fn), plus an independent copy rule r <- s2
mcOrd == <<"p", "q", "r", "s", "s2">>
Rl(tg, src, kind, id) == [tg |-> tg, src |-> src, cl |-> <<"vcmd " \o kind \o " " \o id>>, kind |-> kind, id |-> id, omit |-> 0, mask |-> <<>>, x |-> FALSE, pf |-> FALSE]
mcMenu == << << Rl(<<"p">>, <<"s">>, "copy", "c1"), Rl(<<"q">>, <<"p">>, "fn", "c2"), Rl(<<"r">>, <<"s2">>, "copy", "c3") >>,
             << Rl(<<"p">>, <<"s">>, "copy", "c1"), Rl(<<"q">>, <<"p">>, "fn", "c2b"), Rl(<<"r">>, <<"s2">>, "copy", "c3") >> >>
mcInit == << <<"s", "S0">>, <<"s2", "S0">> >>
====
