---- MODULE MC_chain ----
EXTENDS MC
\* chain  s -> p -> q  (p copies, q = fn), plus an independent copy rule r <- s2; second menu entry edits q's command
mcOrd == <<"p", "q", "r", "s", "s2">>
mcMenu == << << Rl(<<"p">>, <<"s">>, "copy", "c1"), Rl(<<"q">>, <<"p">>, "fn", "c2"), Rl(<<"r">>, <<"s2">>, "copy", "c3") >>,
             << Rl(<<"p">>, <<"s">>, "copy", "c1"), Rl(<<"q">>, <<"p">>, "fn", "c2b"), Rl(<<"r">>, <<"s2">>, "copy", "c3") >> >>
mcInit == << <<"s", "S0">>, <<"s2", "S0">> >>
====
