---- MODULE MC_chain ----
EXTENDS MC
\* chain  s -> p -> q  (p copies, q = fn), plus an independent copy rule qq <- s2 (its target's name extends the goal name q); menu entries edit q's command / add a target and a source
mcOrd == <<"p", "q", "q2", "qq", "s", "s2", "zz">>
mcMenu == << << Rl(<<"p">>, <<"s">>, "copy", "c1"), Rl(<<"q">>, <<"p">>, "fn", "c2"), Rl(<<"qq">>, <<"s2">>, "copy", "c3") >>,
             << Rl(<<"p">>, <<"s">>, "copy", "c1"), Rl(<<"q">>, <<"p">>, "fn", "c2b"), Rl(<<"qq">>, <<"s2">>, "copy", "c3") >>,
             \* q's rule gains a target and a source
             << Rl(<<"p">>, <<"s">>, "copy", "c1"), Rl(<<"q", "q2">>, <<"p", "s2">>, "fn", "c2"), Rl(<<"qq">>, <<"s2">>, "copy", "c3") >> >>
\* configurations *_empty: p is a stamp file (empty content); in the second set qq is one too (two rules with one, empty, output)
mcMenuE == << << Rl(<<"p">>, <<"s">>, "empty", "c1e"), Rl(<<"q">>, <<"p">>, "fn", "c2"), Rl(<<"qq">>, <<"s2">>, "copy", "c3") >>,
              << Rl(<<"p">>, <<"s">>, "empty", "c1e"), Rl(<<"q">>, <<"p">>, "fn", "c2"), Rl(<<"qq">>, <<"s2">>, "empty", "c3e") >> >>
\* zz is an undeclared bystander file
mcInit == << <<"s", "S0">>, <<"s2", "S0">>, <<"zz", "B0">> >>
====
