---- MODULE MC_two ----
EXTENDS MC
\* a two-target rule whose targets depend on different sources (sel), with a dependent of its second target; one target lives in a
\* directory and its sibling's name extends the directory's name, so the parser's bundle order differs from the sorted order
mcOrd == <<"d", "s1", "s2", "o.s", "o/x">>
mcMenu == << << Rl(<<"d">>, <<"o/x">>, "fn", "c2"), Rl(<<"o.s", "o/x">>, <<"s1", "s2">>, "sel", "c1") >>,
             << Rl(<<"d">>, <<"o/x">>, "fn", "c2"), MkRule(<<"o.s", "o/x">>, <<"s1", "s2">>, "sel", "c1", 0, <<>>, TRUE, FALSE) >> >>
mcInit == << <<"s1", "S0">>, <<"s2", "S0">> >>
mcScriptRevert == << <<"build", "">>, <<"edit", "s1", "S1">>, <<"build", "">>, <<"edit", "s1", "S0">>, <<"build", "">>, <<"build", "">> >>
mcScriptRevert2 == << <<"build", "">>, <<"edit", "s2", "S1">>, <<"build", "">>, <<"edit", "s2", "S0">>, <<"build", "d">>, <<"clean", "">>, <<"build", "">> >>
====
