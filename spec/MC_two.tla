---- MODULE MC_two ----
EXTENDS MC
\* a two-target rule whose targets depend on different sources (sel), with a dependent of its second target; one target lives in a
\* directory and its sibling's name extends the directory's name, so the parser's bundle order differs from the sorted order
mcOrd == <<"d", "s1", "s2", "o.s", "o/x">>
mcMenu == << << Rl(<<"d">>, <<"o/x">>, "fn", "c2"), Rl(<<"o.s", "o/x">>, <<"s1", "s2">>, "sel", "c1") >>,
             << Rl(<<"d">>, <<"o/x">>, "fn", "c2"), MkRule(<<"o.s", "o/x">>, <<"s1", "s2">>, "sel", "c1", 0, <<>>, TRUE, FALSE) >>,
             \* the same rules as in the first entry, the two-target rule spelled with flat path lines (o/x) instead of a bundle: the
             \* parser delivers its targets in another order, the rule is the same rule (the field is only read by the harness)
             << Rl(<<"d">>, <<"o/x">>, "fn", "c2"), [flat |-> TRUE] @@ Rl(<<"o.s", "o/x">>, <<"s1", "s2">>, "sel", "c1") >> >>
mcInit == << <<"s1", "S0">>, <<"s2", "S0">> >>
mcScriptRevert == << <<"build", "">>, <<"edit", "s1", "S1">>, <<"build", "">>, <<"edit", "s1", "S0">>, <<"build", "">>, <<"build", "">> >>
mcScriptRevert2 == << <<"build", "">>, <<"edit", "s2", "S1">>, <<"build", "">>, <<"edit", "s2", "S0">>, <<"build", "d">>, <<"clean", "">>, <<"build", "">> >>
\* ends with the build that takes the earlier targets back from the cache: the invocation the crash drivers kill
mcScriptRevertC == << <<"build", "">>, <<"edit", "s1", "S1">>, <<"build", "">>, <<"edit", "s1", "S0">>, <<"build", "">> >>
====
