---- MODULE MC_two ----
EXTENDS MC
\* a two-target rule whose targets depend on different sources (sel), with a dependent of its second target
mcOrd == <<"d", "s1", "s2", "t1", "t2">>
mcMenu == << << Rl(<<"d">>, <<"t2">>, "fn", "c2"), Rl(<<"t1", "t2">>, <<"s1", "s2">>, "sel", "c1") >>,
             << Rl(<<"d">>, <<"t2">>, "fn", "c2"), MkRule(<<"t1", "t2">>, <<"s1", "s2">>, "sel", "c1", 0, <<>>, TRUE, FALSE) >> >>
mcInit == << <<"s1", "S0">>, <<"s2", "S0">> >>
====
