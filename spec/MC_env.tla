---- MODULE MC_env ----
EXTENDS MC
\* a two-target rule with an undeclared input on its second target, a dependent, and an independent rule
mcOrd == <<"d", "r", "s", "t1", "t2">>
mcMenu == << << Rl(<<"d">>, <<"t1">>, "fn", "c2"), Rl(<<"r">>, <<"s">>, "copy", "c3"), MkRule(<<"t1", "t2">>, <<"s">>, "fn", "c1", 0, <<2>>, FALSE, FALSE) >>,
             << Rl(<<"d">>, <<"t1">>, "fn", "c2"), Rl(<<"r">>, <<"s">>, "copy", "c3"), MkRule(<<"t1", "t2">>, <<"s">>, "fn", "c1", 0, <<1, 2>>, FALSE, FALSE) >> >>
mcInit == << <<"s", "S0">> >>
====
