---- MODULE MC_env ----
EXTENDS MC
\* rules with an undeclared input: a two-target rule (both outputs depend on it in the first menu entry, one in the second), a second
\* single-target one, a dependent and an independent deterministic rule
mcOrd == <<"d", "r", "s", "t1", "t2", "u">>
mcMenu == << << Rl(<<"d">>, <<"t1">>, "fn", "c2"), Rl(<<"r">>, <<"s">>, "copy", "c3"), MkRule(<<"t1", "t2">>, <<"s">>, "fn", "c1", 0, <<1, 2>>, FALSE, FALSE),
                MkRule(<<"u">>, <<"s">>, "fn", "c4", 0, <<1>>, FALSE, FALSE) >>,
             << Rl(<<"d">>, <<"t1">>, "fn", "c2"), Rl(<<"r">>, <<"s">>, "copy", "c3"), MkRule(<<"t1", "t2">>, <<"s">>, "fn", "c1", 0, <<2>>, FALSE, FALSE),
                MkRule(<<"u">>, <<"s">>, "fn", "c4", 0, <<1>>, FALSE, FALSE) >> >>
mcInit == << <<"s", "S0">> >>
====
