CONSTANTS
  Defects = {}
  ClockModel = "distinct"
  Ord0 <- mcOrd
  Menu <- mcMenu
  Init0 <- mcInit
  SrcVals = {"S0", "S1"}
  UserActs = {"edit", "build", "clean", "rules", "tamper", "deltarget"}
  Goals = {"", "d", "e"}
  MaxUser = 11
  FreeFrom = 99
  Script <- mcScriptBoth
INIT GInit
NEXT GNext
CHECK_DEADLOCK FALSE
INVARIANTS EmitHeader EmitDone
