CONSTANTS
  Defects = {}
  ClockModel = "tick"
  Ord0 <- mcOrd
  Menu <- mcMenu
  Init0 <- mcInit
  SrcVals = {"S0", "S1"}
  UserActs = {"edit", "build", "clean", "deltarget"}
  Goals = {"", "q", "p2"}
  MaxUser = 15
  FreeFrom = 99
  Script <- mcScriptD4del
INIT GInit
NEXT GNext
CHECK_DEADLOCK FALSE
INVARIANTS EmitHeader EmitDone
