---------------------------- MODULE RulesGrammar ----------------------------
(***************************************************************************)
(* C14.  A declarative reading of the documented .rules format over        *)
(* abstract lines [lvl |-> number of leading tabs, nm |-> rest of the      *)
(* line]: which texts are well-formed, what they mean (target / source     *)
(* sets, command lines), and for a malformed text the set of diagnoses     *)
(* (kind, line) that apply.  Allowed(rec) judges one record (text, result  *)
(* of the real rule::parse) written by the harness.                        *)
(***************************************************************************)
EXTENDS Naturals, Sequences, FiniteSets, TLC, Json, IOUtils

IsE(x) == x.lvl = 0 /\ x.nm = ""
IsC(x) == x.lvl = 0 /\ x.nm = ":"
IsBlankish(x) == x.nm = ""            \* empty or tabs only

(* ---- bundles: a section's lines -> [errs, tree]; tree = set of nodes [nm, dir, sub] ---- *)
RECURSIVE BRec(_, _)
BRec(S, level) ==
  IF S[1].lvl # level THEN [errs |-> {"BWrongIndent"}, tree |-> {}]
  ELSE
    LET heads == {i \in DOMAIN S : S[i].lvl = level}
        \* lines with lvl < level cannot occur here (the caller slices by lvl > its own level)
        nextHead(i) == IF \E j \in heads : j > i THEN CHOOSE j \in heads : j > i /\ \A k \in heads : k > i => j <= k
                       ELSE Len(S) + 1
        kids(i) == SubSeq(S, i + 1, nextHead(i) - 1)
        node(i) == IF kids(i) = <<>> THEN [errs |-> {}, n |-> [nm |-> S[i].nm, dir |-> FALSE, sub |-> {}]]
                   ELSE LET r == BRec(kids(i), level + 1) IN
                        [errs |-> r.errs, n |-> [nm |-> S[i].nm, dir |-> TRUE, sub |-> r.tree]]
        nodes == {node(i).n : i \in heads}
        errs == UNION {node(i).errs : i \in heads}
        clash == \E a, b \in nodes : a.nm = b.nm /\ a # b
    IN [errs |-> errs \cup (IF clash THEN {"BContradiction"} ELSE {}), tree |-> nodes]

Bundle(S) ==
  IF S = <<>> THEN [errs |-> {"BEmpty"}, tree |-> {}]
  ELSE IF \E i \in DOMAIN S : IsBlankish(S[i]) THEN [errs |-> {"BEmptyLines"}, tree |-> {}]
  ELSE BRec(S, 0)

RECURSIVE Paths(_, _)
Paths(tree, prefix) ==
  UNION {IF n.dir THEN Paths(n.sub, prefix \o n.nm \o "/") ELSE {prefix \o n.nm} : n \in tree}

RECURSIVE Tabs(_)
Tabs(k) == IF k = 0 THEN "" ELSE "\t" \o Tabs(k - 1)
Render(x) == Tabs(x.lvl) \o x.nm

(* ---- rule level ---------------------------------------------------------- *)
\* result: [errs |-> set of <<kind, line>>, rules |-> Seq of [tg, src, cmd], adjacent |-> BOOLEAN]
\* diagnoses of the sections of the current rule that are already closed (a file with two defects may be rejected for either)
Closed(mode, t, s) == {<<e, 0>> : e \in (IF mode \in {"S", "K"} THEN Bundle(t).errs ELSE {}) \cup (IF mode = "K" THEN Bundle(s).errs ELSE {})}
RECURSIVE Scan(_, _, _, _, _, _, _, _)
Scan(L, i, mode, t, s, k, acc, prevClose) ==
  IF i > Len(L) THEN
     CASE mode = "P" -> acc
       [] mode = "T" -> [acc EXCEPT !.errs = @ \cup {<<"EofT", Len(L) + 1>>, <<"EofT", Len(L)>>}]
       [] mode = "S" -> [acc EXCEPT !.errs = @ \cup {<<"EofS", Len(L) + 1>>, <<"EofS", Len(L)>>} \cup Closed(mode, t, s)]
       [] OTHER      -> [acc EXCEPT !.errs = @ \cup {<<"EofK", Len(L) + 1>>, <<"EofK", Len(L)>>} \cup Closed(mode, t, s)]
  ELSE LET x == L[i] IN
     CASE mode = "P" ->
            IF IsE(x) THEN Scan(L, i + 1, "P", t, s, k, acc, FALSE)
            ELSE IF IsC(x) THEN [acc EXCEPT !.errs = @ \cup {<<"ExtraColon", i>>}]
            ELSE Scan(L, i + 1, "T", <<x>>, <<>>, <<>>, [acc EXCEPT !.adjacent = @ \/ prevClose], FALSE)
       [] mode = "T" ->
            IF IsE(x) THEN [acc EXCEPT !.errs = @ \cup {<<"EmptyLine", i>>}]
            ELSE IF IsC(x) THEN Scan(L, i + 1, "S", t, s, k, acc, FALSE)
            ELSE Scan(L, i + 1, "T", Append(t, x), s, k, acc, FALSE)
       [] mode = "S" ->
            IF IsE(x) THEN [acc EXCEPT !.errs = @ \cup {<<"EmptyLine", i>>} \cup Closed(mode, t, s)]
            ELSE IF IsC(x) THEN Scan(L, i + 1, "K", t, s, k, acc, FALSE)
            ELSE Scan(L, i + 1, "S", t, Append(s, x), k, acc, FALSE)
       [] OTHER ->
            IF IsE(x) THEN [acc EXCEPT !.errs = @ \cup {<<"EmptyLine", i>>} \cup Closed(mode, t, s)]
            ELSE IF IsC(x) THEN
               LET bt == Bundle(t) bs == Bundle(s)
                   berrs == {<<e, 0>> : e \in bt.errs \cup bs.errs} IN
               IF berrs # {} THEN [acc EXCEPT !.errs = @ \cup berrs]
               ELSE Scan(L, i + 1, "P", <<>>, <<>>, <<>>,
                         [acc EXCEPT !.rules = Append(@, [tg |-> Paths(bt.tree, ""), src |-> Paths(bs.tree, ""),
                                                         cmd |-> [j \in DOMAIN k |-> Render(k[j])]])], TRUE)
            ELSE Scan(L, i + 1, "K", t, s, Append(k, x), acc, FALSE)

Oracle(L) == Scan(L, 1, "P", <<>>, <<>>, <<>>, [errs |-> {}, rules |-> <<>>, adjacent |-> FALSE], FALSE)

(* ---- judgement on one record ---------------------------------------------- *)
SeqSet(s) == {s[i] : i \in DOMAIN s}
NoDups(s) == Cardinality(SeqSet(s)) = Len(s)
RulesMatch(want, got) ==
  /\ Len(want) = Len(got)
  /\ \A j \in DOMAIN want : /\ SeqSet(got[j].tg) = want[j].tg /\ NoDups(got[j].tg)
                            /\ SeqSet(got[j].src) = want[j].src /\ NoDups(got[j].src)
                            /\ got[j].cmd = want[j].cmd
\* two files given to parse_all: the rules of both in order, or the first error, naming the file it is in
AllowedMulti(rec) ==
  LET o1 == Oracle(rec.lines1)  o2 == Oracle(rec.lines2) IN
  /\ rec.out.res # "panic"
  /\ IF o1.errs # {} THEN rec.out.res = "err" /\ rec.out.file = "one.rules" /\ \E e \in o1.errs : e[1] = rec.out.kind /\ (e[2] = 0 \/ e[2] = rec.out.line)
     ELSE IF o2.errs # {} THEN (o1.adjacent /\ rec.out.res = "err" /\ rec.out.file = "one.rules")
                               \/ (rec.out.res = "err" /\ rec.out.file = "two.rules" /\ \E e \in o2.errs : e[1] = rec.out.kind /\ (e[2] = 0 \/ e[2] = rec.out.line))
     ELSE IF o1.adjacent \/ o2.adjacent THEN (rec.out.res = "ok" => RulesMatch(o1.rules \o o2.rules, rec.out.rules))
     ELSE rec.out.res = "ok" /\ RulesMatch(o1.rules \o o2.rules, rec.out.rules)

AllowedSingle(rec) ==
  LET o == Oracle(rec.lines) IN
  /\ rec.out.res # "panic"
  /\ IF o.errs = {}
     THEN \* well-formed.  A rule that starts on the line right after a closing ':' is not covered by the documentation
          \* ("rules are separated by blank lines"): either outcome, but if accepted it must be the obvious reading
          IF o.adjacent THEN (rec.out.res = "ok" => RulesMatch(o.rules, rec.out.rules))
          ELSE rec.out.res = "ok" /\ RulesMatch(o.rules, rec.out.rules)
     ELSE /\ rec.out.res = "err"
          /\ \E e \in o.errs : e[1] = rec.out.kind /\ (e[2] = 0 \/ e[2] = rec.out.line)
  \* the same text with the lines of each section in another order must give exactly the same result
  /\ ("out2" \in DOMAIN rec /\ rec.out.res = "ok") => rec.out2 = rec.out

Allowed(rec) == IF "multi" \in DOMAIN rec THEN AllowedMulti(rec) ELSE AllowedSingle(rec)
=============================================================================
