CONSTANTS
  Defects = {}
  ClockModel = "distinct"
  Ord0 <- mcOrd
  Menu <- mcMenu
  Init0 <- mcInit
  DirPaths <- mcDirs
  SrcVals = {"S0", "S1"}
  UserActs = {"edit", "build", "clean", "rmdir", "mkdir"}
  Goals = {""}
  MaxUser = 7
  FreeFrom = 3
  Script <- mcScriptGone
INIT GInit
NEXT GNext
VIEW EdgeView
CHECK_DEADLOCK FALSE
INVARIANTS EmitHeader EmitPrefix
