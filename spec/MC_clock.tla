---- MODULE MC_clock ----
EXTENDS Ruler2
Has2(f, k) == k \in DOMAIN f
MkRule(tg, src, kind, id) ==
  [tg |-> tg, src |-> src, cl |-> <<"vcmd " \o kind \o " " \o id \o " " \o A!JoinS(tg, ",") \o " " \o A!JoinS(src, ",") \o " -">>,
   kind |-> kind, id |-> id, omit |-> 0, mask |-> <<>>, x |-> FALSE, pf |-> FALSE]
\* the D4 shape: chain of copies and an independent copy
mcOrd == <<"p", "p2", "q", "s", "s2">>
mcMenu == << << MkRule(<<"p">>, <<"s">>, "copy", "c1"), MkRule(<<"p2">>, <<"s2">>, "copy", "c2"), MkRule(<<"q">>, <<"p">>, "copy", "c3") >> >>
mcInit == << <<"s", "S0">>, <<"s2", "S1">> >>
mcScriptD4 == << <<"build", "">>, <<"edit", "s", "S1">>, <<"edit", "s2", "S0">>, <<"build", "">>, <<"clean", "p2">>, <<"edit", "s", "S0">>, <<"build", "q">> >>
NoScript == <<>>
\* a two-target rule with a dependent
mcOrd2 == <<"d", "s1", "s2", "t1", "t2">>
mcMenu2 == << << MkRule(<<"d">>, <<"t2">>, "fn", "c2"), MkRule(<<"t1", "t2">>, <<"s1", "s2">>, "sel", "c1") >> >>
mcInit2 == << <<"s1", "S0">>, <<"s2", "S0">> >>
====
