---- MODULE Gen_two ----
EXTENDS Gen, MC_two
====
