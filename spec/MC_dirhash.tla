---- MODULE MC_dirhash ----
(* The design of the directory ticket, checked with an injective symbolic digest: Tok(s) = "<" s ">" over strings that do   *)
(* not contain the brackets (a 32-byte digest is a fixed-length block that no name or content is assumed to contain; names   *)
(* are newline-free).  Universe: a directory d with entries named a, b; an entry is absent, a file with content "", "x" or   *)
(* "xx", or a directory with entries a, b that are absent or such files: 20 x 20 = 400 trees, all 160 000 ordered pairs.     *)
(* Invariant: two trees get the same ticket exactly when they are the same tree (an empty file and an empty directory of     *)
(* one name counting as the same, see DirHash!SameTree).  With Undelimited = TRUE (file contents go into the stream as       *)
(* they are, the seeded change C15_m5) TLC must refute it: the self-test of this configuration.                              *)
EXTENDS Naturals, Sequences, SequencesExt, TLC
CONSTANT Undelimited
Tok(s) == "<" \o s \o ">"
Order == <<"d/a", "d/a/a", "d/a/b", "d/b", "d/b/a", "d/b/b">>          \* the byte-wise order of every path of the universe
Rank(p) == CHOOSE i \in 1..Len(Order) : Order[i] = p
PathLess(p, q) == Rank(p) < Rank(q)
DH == INSTANCE DirHash WITH D <- Tok, Less <- PathLess, Nl <- "\n", Slash <- "/", Nil <- ""

Contents == {"", "x", "xx"}
File(n, c) == [n |-> n, k |-> "f", b |-> c, c |-> <<>>]
Dir(n, ch) == [n |-> n, k |-> "d", b |-> "", c |-> ch]
\* the entries a directory can have under the names a and b, given what one entry can be
Entries(E(_)) == {<<>>} \cup {<<x>> : x \in E("a") \cup E("b")} \cup {<<x, y>> : x \in E("a"), y \in E("b")}
Leaf(n) == {File(n, c) : c \in Contents}
Inner == Entries(Leaf)
Top(n) == Leaf(n) \cup {Dir(n, ch) : ch \in Inner}
Trees == Entries(Top)

VARIABLE t1
Init == t1 \in Trees
Next == UNCHANGED t1
\* the ticket of every tree of the universe, computed once
TicketOf == [t \in Trees |-> DH!DirDigest("d", t)]
Injective == \A t2 \in Trees : DH!SameTree(t1, t2) <=> (TicketOf[t1] = TicketOf[t2])
\* the variant that streams file contents into the directory's digest without a ticket of their own
RECURSIVE TicketU(_, _)
TicketU(path, ch) == LET full(x) == path \o "/" \o x.n
                         s == SortSeq(ch, LAMBDA x, y : PathLess(full(x), full(y)))
                     IN Tok(DH!Join([i \in 1..Len(s) |-> full(s[i])], "\n")
                            \o DH!Flatten([i \in 1..Len(s) |-> IF s[i].k = "f" THEN s[i].b ELSE TicketU(full(s[i]), s[i].c)]))
TicketUOf == [t \in Trees |-> TicketU("d", t)]
InjectiveU == \A t2 \in Trees : (TicketUOf[t1] = TicketUOf[t2]) => DH!SameTree(t1, t2)          \* no two different trees with one ticket
Inv == IF Undelimited THEN InjectiveU ELSE Injective
====
