CONSTANTS
  Defects = {}
  ClockModel = "distinct"
  Ord0 <- mcOrd
  Menu <- mcMenu
  Init0 <- mcInit
  SrcVals = {"S0", "S1"}
  UserActs = {"edit", "build", "clean", "crash"}
  Goals = {""}
  MaxUser = 3
  FreeFrom = 3
  Script <- mcScriptCrash2
INIT GInit
NEXT GNext
VIEW View
CHECK_DEADLOCK FALSE
INVARIANTS EmitHeader EmitCrash EmitDone
