CONSTANTS
  Defects = {}
  ClockModel = "distinct"
  Ord0 <- mcOrd
  Menu <- mcMenu
  Init0 <- mcInit
  SrcVals = {"S0", "S1"}
  UserActs = {"build", "edit"}
  Goals = {""}
  MaxUser = 4
  FreeFrom = 4
  Script <- mcScriptEdit2
INIT GInit
NEXT GNext
VIEW EdgeView
CHECK_DEADLOCK FALSE
INVARIANTS EmitHeader EmitPrefix
