---- MODULE MC_both ----
EXTENDS MC
\* a rule (d) that needs BOTH targets of a two-target rule whose targets change independently (sel), and a rule downstream of it (e):
\* two in-edges from one producing rule; e has a source of its own, so that its command can run in a build in which d must be rebuilt
mcOrd == <<"d", "e", "s1", "s2", "s3", "t1", "t2">>
mcMenu == << << Rl(<<"d">>, <<"t1", "t2">>, "fn", "c2"), Rl(<<"e">>, <<"d", "s3">>, "fn", "c3"), Rl(<<"t1", "t2">>, <<"s1", "s2">>, "sel", "c1") >> >>
mcInit == << <<"s1", "S0">>, <<"s2", "S0">>, <<"s3", "S0">> >>
mcScriptBoth == << <<"build", "">>, <<"edit", "s2", "S1">>, <<"edit", "s3", "S1">>, <<"build", "">>, <<"edit", "s1", "S1">>, <<"build", "e">>, <<"edit", "s2", "S0">>, <<"build", "">>, <<"clean", "d">>, <<"edit", "s1", "S0">>, <<"build", "">> >>
====
