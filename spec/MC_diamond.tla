---- MODULE MC_diamond ----
EXTENDS MC
\* two independent copy rules over equal sources (byte-identical outputs, one shared cache entry) and a dependent of both
mcOrd == <<"a", "b", "p", "q", "z">>
mcMenu == << << Rl(<<"p">>, <<"a">>, "copy", "c1"), Rl(<<"q">>, <<"b">>, "copy", "c2"), Rl(<<"z">>, <<"p", "q">>, "fn", "c3") >>,
             \* both copy commands edited; q's new command no longer produces its target
             << Rl(<<"p">>, <<"a">>, "copy", "c1b"), MkRule(<<"q">>, <<"b">>, "copy", "c2b", 1, <<>>, FALSE, FALSE), Rl(<<"z">>, <<"p", "q">>, "fn", "c3") >> >>
mcInit == << <<"a", "S0">>, <<"b", "S0">> >>
mcScriptBCB == << <<"build", "">>, <<"clean", "">>, <<"build", "">> >>
mcScriptEdit == << <<"build", "">>, <<"edit", "a", "S1">>, <<"build", "">>, <<"edit", "a", "S0">>, <<"build", "">> >>
\* one rule displaces a stale target whose bytes the other rule is about to take back from the cache: back-up against restore on one entry
mcScriptStale == << <<"build", "">>, <<"del", "q">>, <<"edit", "a", "S1">>, <<"build", "">> >>
====
