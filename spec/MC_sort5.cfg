CONSTANTS
  T <- mcT5
  Fixed = TRUE
INIT Init
NEXT Next
INVARIANT Conforms
CHECK_DEADLOCK FALSE
