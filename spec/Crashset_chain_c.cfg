CONSTANTS
  Defects = {}
  ClockModel = "distinct"
  Ord0 <- mcOrd
  Menu <- mcMenu
  Init0 <- mcInit
  SrcVals = {"S0", "S1"}
  UserActs = {"edit", "build", "clean", "crash"}
  Goals = {""}
  MaxUser = 1
  FreeFrom = 1
  Script <- mcScriptCrash0
INIT GInit
NEXT GNext
VIEW View
CHECK_DEADLOCK FALSE
INVARIANTS EmitHeader EmitCrash EmitDone
