CONSTANTS
  Defects = {}
  ClockModel = "distinct"
  Ord0 <- mcOrd
  Menu <- mcMenuE
  Init0 <- mcInit
  SrcVals = {"S0", "S1"}
  UserActs = {"edit", "build", "clean", "rules", "tamper", "deltarget"}
  Goals = {"", "q"}
  MaxUser = 12
  FreeFrom = 99
  Script <- mcScriptEmpty
INIT GInit
NEXT GNext
CHECK_DEADLOCK FALSE
INVARIANTS EmitHeader EmitDone
