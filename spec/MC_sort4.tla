---- MODULE MC_sort4 ----
EXTENDS SortImpl
mcT == <<"a", "b", "c", "d">>
mcT3 == <<"a", "b", "c">>
mcT5 == <<"a", "b", "c", "d", "e">>
====
