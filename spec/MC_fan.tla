---- MODULE MC_fan ----
EXTENDS MC
\* fan-out 3 and fan-in 3 (x -> y1,y2,y3 -> z) next to a disconnected component (w <- b); menus place a failure in the fan
mcOrd == <<"a", "b", "w", "x", "y1", "y2", "y3", "z">>
X == Rl(<<"x">>, <<"a">>, "fn", "cx")
Y(n, k) == Rl(<<"y" \o n>>, <<"x">>, k, "cy" \o n)
Z == Rl(<<"z">>, <<"y1", "y2", "y3">>, "fn", "cz")
W == Rl(<<"w">>, <<"b">>, "copy", "cw")
mcMenu == << << W, X, Y("1", "fn"), Y("2", "fn"), Y("3", "fn"), Z >>,
             << W, X, Y("1", "fn"), Y("2", "fail"), Y("3", "fn"), Z >>,
             << W, Rl(<<"x">>, <<"a">>, "fail", "cx"), Y("1", "fn"), Y("2", "fn"), Y("3", "fn"), Z >> >>
mcInit == << <<"a", "S0">>, <<"b", "S0">> >>
mcScriptRB == << <<"rules", 2>>, <<"build", "">> >>
mcScriptRB3 == << <<"rules", 3>>, <<"build", "">> >>
mcScriptDB == << <<"del", "b">>, <<"build", "">> >>
mcScriptBCB == << <<"build", "">>, <<"clean", "">>, <<"build", "">> >>
mcScriptGoal == << <<"build", "y2">>, <<"build", "">> >>
====
