CONSTANTS
  Defects = {}
  ClockModel = "distinct"
  Ord0 <- mcOrd
  Menu <- mcMenu
  Init0 <- mcInit
  SrcVals = {"S0", "S1"}
  UserActs = {"build", "rules", "delleaf"}
  Goals = {""}
  MaxUser = 3
  FreeFrom = 3
  Script <- mcScriptCancelRace
INIT GInit
NEXT GNext
VIEW EdgeView
CHECK_DEADLOCK FALSE
INVARIANTS EmitHeader EmitPrefix
