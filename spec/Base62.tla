---- MODULE Base62 ----
(* The text form of a hash: the value of the NB bytes read as a little-endian number, written with ND base-62 digits, *)
(* least significant digit first, digits 0-9 a-z A-Z (cache file names, URLs of `ruler serve`).  NB = 32, ND = 43 for   *)
(* ruler; the operators are parametric so that TLC can check the bijection exhaustively on a scaled-down instance        *)
(* (MC_base62: NB = 2, ND = 3) with the very definitions that judge the real code at NB = 32.                            *)
(* Numbers never exceed 62 * 256 here: long division / Horner's rule on digit sequences (TLC integers are 32-bit).       *)
EXTENDS Naturals, Sequences, SequencesExt

\* code point of digit d (0..61) and back (62 = not a digit)
CharOf(d) == IF d < 10 THEN 48 + d ELSE IF d < 36 THEN 97 + (d - 10) ELSE 65 + (d - 36)
DigitOf(c) == IF c >= 48 /\ c <= 57 THEN c - 48
              ELSE IF c >= 97 /\ c <= 122 THEN c - 97 + 10
              ELSE IF c >= 65 /\ c <= 90 THEN c - 65 + 36
              ELSE 62

\* one long division of the big-endian byte sequence be by 62: <<quotient (big-endian, same length), remainder>>
DivStep(be) == FoldLeft(LAMBDA acc, b : LET cur == acc[2] * 256 + b IN << Append(acc[1], cur \div 62), cur % 62 >>, << <<>>, 0 >>, be)

\* digits, least significant first
Digits(le, nd) == LET r == FoldLeft(LAMBDA acc, i : LET qr == DivStep(acc[1]) IN << qr[1], Append(acc[2], qr[2]) >>,
                                    << Reverse(le), <<>> >>, [i \in 1..nd |-> i])
                  IN r[2]
Encode(le, nd) == [i \in 1..nd |-> CharOf(Digits(le, nd)[i])]

\* value of the digit sequence ds (least significant first) as little-endian bytes, one byte more than needed for 62^Len(ds)
\* Horner from the most significant digit: acc := acc * 62 + d on little-endian bytes with carry
MulAdd(le, d) == LET r == FoldLeft(LAMBDA acc, b : LET cur == b * 62 + acc[2] IN << Append(acc[1], cur % 256), cur \div 256 >>, << <<>>, d >>, le)
                 IN r[1]                  \* the last carry is 0 as long as le has a spare byte
Value(ds, nbytes) == FoldLeft(LAMBDA acc, d : MulAdd(acc, d), [i \in 1..nbytes |-> 0], Reverse(ds))

\* Decode: chars is the sequence of code points of the string, blen its length in bytes (UTF-8)
Decode(chars, blen, nb, nd) ==
    IF blen # nd \/ Len(chars) # nd THEN [ok |-> FALSE, why |-> "length"]
    ELSE IF \E i \in 1..nd : DigitOf(chars[i]) = 62 THEN [ok |-> FALSE, why |-> "character"]
    ELSE LET v == Value([i \in 1..nd |-> DigitOf(chars[i])], nb + 2)
         IN IF v[nb + 1] # 0 \/ v[nb + 2] # 0 THEN [ok |-> FALSE, why |-> "overflow"]
            ELSE [ok |-> TRUE, le |-> SubSeq(v, 1, nb)]
====
