CONSTANTS
  Defects = {}
  ClockModel = "tick"
  Ord0 <- mcOrd
  Menu <- mcMenu
  Init0 <- mcInit
  SrcVals = {"S0", "S1"}
  UserActs = {"edit", "build", "clean", "rules"}
  Goals = {"", "q", "p2"}
  MaxUser = 12
  FreeFrom = 99
  Script <- mcScriptD4fail2
INIT GInit
NEXT GNext
CHECK_DEADLOCK FALSE
INVARIANTS EmitHeader EmitDone
