------------------------------- MODULE Server -------------------------------
(***************************************************************************)
(* C19.  What `ruler serve` must answer.  The harness builds ruler         *)
(* directories with the real binary on the real file system, decodes the   *)
(* cache and history directories independently, issues requests and writes *)
(* one record per request: the class of the request (is the name a well-   *)
(* formed hash? is it in the cache / recorded in the history?), what an    *)
(* exact answer would be, and what came back.  Allowed judges a record.    *)
(***************************************************************************)
EXTENDS Naturals, Sequences, TLC, Json, IOUtils
Respond(rec) ==
  CASE rec.kind \in {"files", "alive"} ->
         IF rec.wellformed /\ rec.cached THEN [status |-> 200, body |-> rec.want_sha] ELSE [status |-> 404, body |-> "any"]
    [] rec.kind = "rules" ->
         IF rec.wellformed /\ rec.recorded THEN [status |-> 200, body |-> rec.want_text] ELSE [status |-> 404, body |-> "any"]
    [] OTHER -> [status |-> 0, body |-> "any"]
Allowed(rec) ==
  IF rec.kind = "startup" THEN rec.up
  ELSE LET want == Respond(rec) IN
       /\ rec.answered                                   \* the server is still there (also after hostile requests)
       /\ rec.status = want.status                       \* 200 exactly for what is held, 404 for everything else: nothing outside is ever served
       /\ want.status = 200 => (IF rec.kind = "rules" THEN rec.body_text = want.body ELSE rec.body_sha = want.body)
=============================================================================
