---- MODULE DirHash ----
(* The ticket of a directory, over an abstract digest D and an abstract kind of stream (byte sequences for the real thing,   *)
(* strings in the model-checking instance MC_dirhash): the listing of the full paths of the entries, sorted and joined by     *)
(* newlines, followed by the ticket of every entry in listing order - D(bytes) for a file, the directory ticket for a         *)
(* directory.  Ticket.tla instantiates it with SHA-256 (conformance of the real code); MC_dirhash.tla with an injective       *)
(* symbolic digest and checks that two trees get one ticket exactly when they are the same tree (SameTree).                   *)
EXTENDS Naturals, Sequences, SequencesExt
CONSTANTS D(_),          \* the digest of a stream, itself a stream
          Less(_, _),    \* the order in which paths are listed (byte-wise lexicographic)
          Nl, Slash,     \* the streams "\n" and "/"
          Nil            \* the empty stream

RECURSIVE Flatten(_)
Flatten(ss) == IF ss = <<>> THEN Nil ELSE Head(ss) \o Flatten(Tail(ss))

Join(ss, sep) == IF ss = <<>> THEN Nil ELSE FoldLeft(LAMBDA acc, s : acc \o sep \o s, Head(ss), Tail(ss))

\* a tree node is [n |-> name, k |-> "f" | "d", b |-> content, c |-> children]
RECURSIVE DirDigest(_, _)
DirDigest(path, children) ==
    LET full(x) == path \o Slash \o x.n
        sorted == SortSeq(children, LAMBDA x, y : Less(full(x), full(y)))
        listing == Join([i \in 1..Len(sorted) |-> full(sorted[i])], Nl)
        sub(x) == IF x.k = "f" THEN D(x.b) ELSE DirDigest(full(x), x.c)
    IN D(listing \o Flatten([i \in 1..Len(sorted) |-> sub(sorted[i])]))

\* tree equality up to the order of the children (a directory is a set of entries).  The property speaks of contained
\* names and contents: an empty file and an empty directory of one name hold the same names (none) and the same content
\* (none), so they count as the same here (ruler gives both the ticket of the empty string; see DESIGN section 17).
Hollow(x) == IF x.k = "f" THEN x.b = Nil ELSE x.c = <<>>
RECURSIVE SameTree(_, _)
SameTree(c1, c2) == /\ Len(c1) = Len(c2)
                    /\ \A i \in 1..Len(c1) : \E j \in 1..Len(c2) :
                          /\ c1[i].n = c2[j].n
                          /\ \/ Hollow(c1[i]) /\ Hollow(c2[j])
                             \/ /\ c1[i].k = c2[j].k
                                /\ IF c1[i].k = "f" THEN c1[i].b = c2[j].b ELSE SameTree(c1[i].c, c2[j].c)
====
