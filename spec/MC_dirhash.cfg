CONSTANT Undelimited = FALSE
INIT Init
NEXT Next
INVARIANT Inv
CHECK_DEADLOCK FALSE
