CONSTANTS
  T <- mcT3
  Fixed = TRUE
INIT Init
NEXT Next
INVARIANT Conforms
CHECK_DEADLOCK FALSE
