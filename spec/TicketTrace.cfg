INIT Init
NEXT Next
INVARIANT Judge
POSTCONDITION Accepted
CHECK_DEADLOCK FALSE
