------------------------------- MODULE Ruler2 -------------------------------
(***************************************************************************)
(* C18 at model level: the product of two copies of Ruler driven by the    *)
(* same user-level actions.  Copy B loses its file-state table before      *)
(* every build (StartBuildWith(..., EmptyF, ...)).  Both run the serial    *)
(* schedule.  Invariant: whenever both are idle after a build, verdict and *)
(* workspace contents agree.  Checked under both clock models.             *)
(***************************************************************************)
EXTENDS Naturals, Sequences, FiniteSets, TLC
CONSTANTS Defects, ClockModel, Ord0, Menu, Init0, SrcVals, UserActs, Goals, MaxUser, Script
VARIABLES ordA, rulesA, envA, wsA, cacheA, histA, fstabA, rdirA, clockA, modeA, goalA, planA, tlA, inboxA, rxAliveA, mjA, merrsA, mstatA, mfstA, earlyA, verdictA, evA, gA,
          ordB, rulesB, envB, wsB, cacheB, histB, fstabB, rdirB, clockB, modeB, goalB, planB, tlB, inboxB, rxAliveB, mjB, merrsB, mstatB, mfstB, earlyB, verdictB, evB, gB
A == INSTANCE Ruler WITH ord <- ordA, rules <- rulesA, env <- envA, ws <- wsA, cache <- cacheA, hist <- histA, fstab <- fstabA, rdir <- rdirA, clock <- clockA,
        mode <- modeA, goal <- goalA, plan <- planA, tl <- tlA, inbox <- inboxA, rxAlive <- rxAliveA, mj <- mjA, merrs <- merrsA, mstat <- mstatA, mfst <- mfstA,
        early <- earlyA, verdict <- verdictA, ev <- evA, g <- gA
B == INSTANCE Ruler WITH ord <- ordB, rules <- rulesB, env <- envB, ws <- wsB, cache <- cacheB, hist <- histB, fstab <- fstabB, rdir <- rdirB, clock <- clockB,
        mode <- modeB, goal <- goalB, plan <- planB, tl <- tlB, inbox <- inboxB, rxAlive <- rxAliveB, mj <- mjB, merrs <- merrsB, mstat <- mstatB, mfst <- mfstB,
        early <- earlyB, verdict <- verdictB, ev <- evB, g <- gB
varsA == <<ordA, rulesA, envA, wsA, cacheA, histA, fstabA, rdirA, clockA, modeA, goalA, planA, tlA, inboxA, rxAliveA, mjA, merrsA, mstatA, mfstA, earlyA, verdictA, evA, gA>>
varsB == <<ordB, rulesB, envB, wsB, cacheB, histB, fstabB, rdirB, clockB, modeB, goalB, planB, tlB, inboxB, rxAliveB, mjB, merrsB, mstatB, mfstB, earlyB, verdictB, evB, gB>>
EmptyF == [q \in {} |-> 0]

InitWs == [p \in {Init0[i][1] : i \in DOMAIN Init0} |-> [c |-> Init0[CHOOSE i \in DOMAIN Init0 : Init0[i][1] = p][2], m |-> 1, x |-> FALSE]]
Init == /\ A!InitCore /\ ordA = Ord0 /\ rulesA = Menu[1] /\ wsA = InitWs
        /\ B!InitCore /\ ordB = Ord0 /\ rulesB = Menu[1] /\ wsB = InitWs

BothIdle == modeA = "idle" /\ modeB = "idle"
Can(a) == BothIdle /\ a \in UserActs /\ gA.nuser < MaxUser
Scr(e) == Script = <<>> \/ (gA.nuser + 1 \in DOMAIN Script /\ Script[gA.nuser + 1] = e)
Has(f, k) == k \in DOMAIN f

User ==
  \/ Can("edit") /\ \E p \in A!Leaves, c \in SrcVals : (IF Has(wsA, p) THEN wsA[p].c # c ELSE TRUE) /\ Scr(<<"edit", p, c>>) /\ A!Edit(p, c) /\ B!Edit(p, c)
  \/ Can("tamper") /\ \E p \in A!AllTargets : (IF Has(wsA, p) THEN wsA[p].c # "J" ELSE TRUE) /\ Scr(<<"edit", p, "J">>) /\ A!Edit(p, "J") /\ B!Edit(p, "J")
  \/ Can("deltarget") /\ \E p \in A!AllTargets \cap DOMAIN wsA \cap DOMAIN wsB : Scr(<<"del", p>>) /\ A!DelFile(p) /\ B!DelFile(p)
  \/ Can("rules") /\ \E k \in DOMAIN Menu : Menu[k] # rulesA /\ Scr(<<"rules", k>>) /\ A!SetRules(Menu[k]) /\ B!SetRules(Menu[k])
  \/ Can("build") /\ \E gl \in Goals : Scr(<<"build", gl>>) /\ A!StartBuildWith(gl, fstabA, EmptyF) /\ B!StartBuildWith(gl, EmptyF, EmptyF)
  \/ Can("clean") /\ \E gl \in Goals : Scr(<<"clean", gl>>) /\ A!StartClean(gl) /\ B!StartClean(gl)

\* one run at a time; both serial, hence deterministic
StepA == modeA # "idle" /\ (IF A!MainEnabled THEN A!MainStep ELSE \E t \in DOMAIN tlA : A!SerialPick(t) /\ A!AnyThreadStep(t)) /\ UNCHANGED varsB
StepB == modeA = "idle" /\ modeB # "idle" /\ (IF B!MainEnabled THEN B!MainStep ELSE \E t \in DOMAIN tlB : B!SerialPick(t) /\ B!AnyThreadStep(t)) /\ UNCHANGED varsA
Next == User \/ StepA \/ StepB

Contents(W) == [p \in DOMAIN W |-> W[p].c]
C18_SameWithoutTable ==
  (BothIdle /\ evA.a = "ret" /\ evA.kind = "build" /\ evB.a = "ret") => (verdictA = verdictB /\ Contents(wsA) = Contents(wsB))
=============================================================================
