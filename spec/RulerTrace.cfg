CONSTANTS
  Defects = {}
  ClockModel = "distinct"
INIT TInit
NEXT TNext
INVARIANT AllProps
POSTCONDITION Accepted
CHECK_DEADLOCK FALSE
