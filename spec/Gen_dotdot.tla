---- MODULE Gen_dotdot ----
EXTENDS Gen, MC_dotdot
====
