---- MODULE MC_three ----
EXTENDS MC
\* a three-target rule (differing contents, one executable variant) and a dependent of its last target
mcOrd == <<"d", "s", "t1", "t2", "t3">>
mcMenu == << << Rl(<<"d">>, <<"t3">>, "fn", "c2"), Rl(<<"t1", "t2", "t3">>, <<"s">>, "fn", "c1") >>,
             << Rl(<<"d">>, <<"t3">>, "fn", "c2"), MkRule(<<"t1", "t2", "t3">>, <<"s">>, "fn", "c1", 0, <<>>, TRUE, FALSE) >> >>
mcInit == << <<"s", "S0">> >>
====
