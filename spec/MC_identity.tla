---- MODULE MC_identity ----
(* all pairs of rules over a universe of strings; sorted lists are sequences without repetition, ordered by Rank *)
EXTENDS Identity
Strs == << <<"a">>, <<"a", "a">>, <<"a", ":">>, <<":", "a">>, <<":", ":">> >>       \* parser-producible: non-empty, no newline, not a lone ':'
Idx == DOMAIN Strs
\* sorted duplicate-free lists of 1..2 strings = non-empty subsets of size <= 2 (as index sets), command: sequences of length 1..2
SetsUpTo2 == {S \in SUBSET Idx : Cardinality(S) \in {1, 2}}
AsSeq(S) == LET a == CHOOSE i \in S : \A j \in S : i <= j IN IF Cardinality(S) = 1 THEN <<Strs[a]>> ELSE <<Strs[a], Strs[CHOOSE j \in S : j # a]>>
Cmds == {<<Strs[i]>> : i \in Idx} \cup {<<Strs[i], Strs[j]>> : i, j \in Idx}
VARIABLE dummy
Rules == [tg : SetsUpTo2, src : SetsUpTo2, cl : Cmds]
S(r) == Ser(AsSeq(r.tg), AsSeq(r.src), r.cl)
Init == dummy = 0
Next == UNCHANGED dummy
\* the serialisation is injective on canonical forms: as many distinct byte strings as rules
Injective == Cardinality({S(r) : r \in Rules}) = Cardinality(Rules)
Count == PrintT(<<"RULES", Cardinality(Rules)>>)
====
