---- MODULE MC_dir ----
EXTENDS MC
\* two rules with a target each in the same workspace directory, a dependent of one of them, and a rule outside the directory;
\* the user removes the directory (with everything in it) and makes it again
mcOrd == <<"d", "o/a", "o/b", "r", "s1", "s2">>
mcMenu == << << Rl(<<"d">>, <<"o/a">>, "fn", "c3"), Rl(<<"o/a">>, <<"s1">>, "copy", "c1"), Rl(<<"o/b">>, <<"s2">>, "copy", "c2"), Rl(<<"r">>, <<"s1">>, "fn", "c4") >> >>
mcInit == << <<"s1", "S0">>, <<"s2", "S0">> >>
mcDirs == [d \in {"o"} |-> {"o/a", "o/b"}]
\* the directory disappears while its files are in the cache: nothing can be restored until it is back
mcScriptCleaned == << <<"build", "">>, <<"clean", "">>, <<"rmdir", "o">>, <<"build", "">>, <<"mkdir", "o">>, <<"build", "">> >>
\* the directory disappears with its files: the commands run and cannot write
mcScriptGone == << <<"build", "">>, <<"rmdir", "o">>, <<"build", "">>, <<"edit", "s1", "S1">>, <<"build", "">>, <<"mkdir", "o">>, <<"build", "">> >>
====
