#!/bin/bash
# wtquick.sh <patch.diff> -- <command...>: runs a command with the harness pointed (RULER_SRC) at a scratch worktree of /repo carrying the patch
p=$1; shift; shift
wt=/tmp/wt/quick_$$
git -C /repo worktree add -q --detach $wt HEAD || exit 2
git -C $wt apply $p || { git -C /repo worktree remove --force $wt; exit 2; }
RULER_SRC=$wt/src "$@"; rc=$?
git -C /repo worktree remove --force $wt
exit $rc
