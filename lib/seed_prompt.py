# seed_prompt.py <property id> <scratch worktree> [extra text]: the instructions given to a seeding sub-agent (the text of one property from
# /tmp/wt/prop_<id>.json - written from properties.jsonl - and its own worktree; nothing from /verif)
import sys, json
pid, wt, extra = sys.argv[1], sys.argv[2], (sys.argv[3] if len(sys.argv) > 3 else '')
prop = open('/tmp/wt/prop_%s.json' % pid).read()
print(f"""You are helping to evaluate a verification framework by writing realistic *faulty changes* to a Rust project (mutation seeding). Work ONLY inside the git worktree {wt} (a checkout of the project "ruler", a make-like incremental build tool; sources in {wt}/src, README.md at the top). Do NOT read, list or touch /verif or /repo or any other directory under /tmp/wt than your own; everything you need is in your worktree. The machine is offline: use `cargo build --offline` / `cargo test --offline` (the first build takes about a minute). Do not use more than 4 parallel jobs (`-j 4`).

Here is a semantic property the project is supposed to satisfy:

{prop}

Your task: produce TWO different, independent changes to the project's source (under {wt}/src) that each BREAK this property, while
 (a) the project still compiles without new warnings turned errors, and
 (b) the existing test suite still passes completely (`cargo test --offline` reports 209 passed, 0 failed), and
 (c) the change looks like something a developer could plausibly commit (a refactoring, an optimisation, a "simplification", a bug fix gone wrong, an off-by-one, a swapped argument, a changed comparison, a reordering of two steps ...), not sabotage with an obvious marker, and
 (d) the violation needs something SPECIFIC to manifest - a particular interleaving, a crash or fault at a particular point, a multi-step sequence of operations, an unusual or boundary input, a particular environment, or two cooperating sites that each look fine alone - NOT something ordinary use would expose at once.
{extra}
For each change also write a DEMONSTRATION: a new test (added to the crate's test modules as a separate diff) or a small shell script / program that FAILS with the change applied and PASSES without it (on the unchanged tree), showing that the property is really violated by the change. Verify both directions yourself.

Deliver, for change k in 1, 2, a directory {wt}/_out/m<k>/ containing:
  patch.diff   - `git diff` of ONLY the faulty change (must apply with `git apply` to a clean checkout of HEAD; source files only, not the demonstration)
  demo.diff and/or demo.sh - the demonstration (a diff that adds the test(s), applying on top of a clean HEAD with or without patch.diff; or a script that takes the worktree path as $1)
  README.md    - 5-15 lines: what the change is, why it breaks the property, exactly what is needed for the violation to manifest, and the commands you ran with their results (suite with the change: N passed; demonstration with / without the change).
Leave the worktree itself clean at the end (`git checkout -- . && git clean -fd src`, keep _out/). Make the two changes genuinely different (different code site and different trigger). Prefer subtle changes in less obvious places over the first thing that comes to mind. Your final answer should be a short summary of the two changes (one paragraph each).""")
