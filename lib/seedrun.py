#!/usr/bin/env python3
"""seedrun.py <seed id> [props...]: applies /verif/seeded/<id>/patch.diff to /repo, runs the named checks (default: the
property in the id), undoes the change, and records what was reported in /verif/seeded/<id>/result.json"""
import sys, os, json, subprocess, re, time
sid = sys.argv[1]
props = sys.argv[2:] or [sid.split('_')[0][:3]]
d = '/verif/seeded/' + sid
def sh(c): return subprocess.run(c, shell=True, stdout=subprocess.PIPE, stderr=subprocess.STDOUT, text=True)
if sh('git -C /repo diff --quiet').returncode != 0: print('/repo dirty'); sys.exit(2)
if sh('git -C /repo apply %s/patch.diff' % d).returncode != 0: print('patch does not apply'); sys.exit(2)
res = {}
try:
    for p in props:
        t0 = time.time()
        r = sh('cd /verif && ./check %s' % p)
        lines = [l for l in r.stdout.split('\n') if re.match(r'VIOLATION|DIVERGENCE|TOOL-ERROR|KNOWN', l)]
        res[p] = {'exit': r.returncode, 'wall_s': round(time.time() - t0), 'violations': sorted(set(re.sub(r'replay=\S+', '', l) for l in lines if l.startswith('VIOLATION')))[:6],
                  'divergences': len([l for l in lines if l.startswith('DIVERGENCE')]), 'tool_error': [l[:300] for l in lines if l.startswith('TOOL-ERROR')][:1]}
        print(sid, p, 'exit', r.returncode, res[p]['violations'][:2], 'div', res[p]['divergences'], res[p]['tool_error'])
finally:
    sh('git -C /repo checkout -- . ; git -C /repo clean -qfd src')
    # the evidence files now describe the changed tree: put the committed ones (unchanged tree) back
    sh('git -C /verif checkout -- evidence ; git -C /verif clean -qfd evidence')
old = {}
if os.path.exists(d + '/result.json'): old = json.load(open(d + '/result.json'))
old.update(res)
json.dump(old, open(d + '/result.json', 'w'), indent=1)
