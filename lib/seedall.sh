#!/bin/bash
# Re-runs the targeted check for every seeded change with the committed machinery, on N parallel copies of /verif
# (each with its own harness build and its own build of the real binary), never touching /repo's working tree.
# usage: lib/seedall.sh [N workers] [id pattern]
N=${1:-4}
cd /verif
ids=$(ls seeded | grep -v "benign\|README" | grep "${2:-.}")
i=0; for id in $ids; do echo $id >> /tmp/seedall_$((i % N)).lst; i=$((i+1)); done
for w in $(seq 0 $((N-1))); do
  ( d=/tmp/vw$w; rm -rf $d; git -C /verif worktree prune; git -C /verif worktree add -q --detach $d HEAD
    for id in $(cat /tmp/seedall_$w.lst); do
      p=$(python3 -c "import json;print(json.load(open('/verif/seeded/$id/meta.json'))['breaks_property'])" 2>/dev/null || echo ${id:0:3})
      extra=""; [ "$id" = "C05_m2" ] && extra="C12"; [ "$id" = "C02b_m2" ] && extra="C11"; [ "$id" = "C13b_m1" ] && extra="C01"; [ "$id" = "C06c_m3" ] && extra="C09"; [ "$id" = "C08c_m1" ] && extra="C18"; [ "$id" = "C09c_m1" ] && extra="C12"; [ "$id" = "C11c_m3" ] && extra="C07"
      WT_TARGET=/tmp/wt/target_w$w VERIF_DIR=$d python3 /verif/lib/wtrun.py /verif/seeded/$id/patch.diff w${w}_$id $p $extra
    done
    git -C /verif worktree remove --force $d ) > /tmp/seedall_$w.out 2>&1 &
done
wait
rm -f /tmp/seedall_*.lst
cat /tmp/seedall_*.out
