#!/bin/bash
# runs every quick check on the current tree, validates the evidence files
tier=${1:-quick}
./check selftest > /tmp/runall_selftest.out 2>&1; echo "selftest exit=$? $(tail -n 1 /tmp/runall_selftest.out)"
for p in C01 C02 C03 C04 C05 C06 C07 C08 C09 C10 C11 C12 C13 C14 C15 C16 C17 C18 C19 C20; do
  s=$(date +%s); ./check $p --tier $tier > /tmp/runall_${tier}_$p.out 2>&1; rc=$?; e=$(( $(date +%s) - s ))
  echo "$p exit=$rc ${e}s $(grep -c DIVERGENCE /tmp/runall_${tier}_$p.out) div; $(grep -h 'VIOLATION\|TOOL-ERROR\|NOTE' /tmp/runall_${tier}_$p.out | head -2 | cut -c1-200)"
done
python3-vt - <<'PY'
import json,jsonschema,glob
sch=json.load(open('/root/.vp/EVIDENCE.schema.json'))
for f in sorted(glob.glob('/verif/evidence/C*.json')):
    try: jsonschema.validate(json.load(open(f)),sch)
    except Exception as e: print('EVIDENCE INVALID',f,str(e)[:200])
print('evidence checked')
PY
