#!/usr/bin/env python3
"""writes seeded/<id>/meta.json and seeded/README.md from the confirmation logs and the recorded check results"""
import json, os, glob
DESC = {
 'D1': ('C12', 'reverse of fix 27c74c1 (sort: pending siblings counted as ancestors)', 'graph shape a<-{b,c}, b<-{c}'),
 'D2': ('C06', 'reverse of fix 2ac0d43 (restore_file: losing the race for a cache entry is a malfunction)', 'two rules with identical remembered outputs, cleaned; both is_file before either rename'),
 'D3': ('C11', 'reverse of fix ea26f29 (state files truncated and rewritten in place)', 'kill between create and write of a state file'),
 'D4': ('C18', 'reverse of fix 95122dd (restored target hashed with the displaced file state)', 'tick clock; 7-step history build, edit, edit, build, clean p2, edit, build q'),
 'C01_m1': ('C01', 'sort of targets/sources moved into Frame constructor: sub-indices taken in parser order', 'multi-target rule whose bundle order differs from string order (dir name prefix of sibling) + edit changing only one target'),
 'C01_m2': ('C01', 'get_file_ticket: timestamp == becomes <=', 'an older file at a target path while a newer state is recorded (mv / cp -p, or lost table write)'),
 'C02_m1': ('C02', 'rule histories written only when the whole build succeeds', 'a build with one failing and one succeeding rule, then rebuild'),
 'C02_m2': ('C02', 'absent target never looked up in the cache', 'build, clean, build (or delete target / failed build + revert)'),
 'C04_m1': ('C04', 'failing command line overwritten by a later succeeding line', 'multi-line command whose non-final line exits non-zero'),
 'C04_m2': ('C04', 'identical error texts reported once', 'two independent rules failing by non-zero exit in one build'),
 'C05_m1': ('C05', 'rule-history read moved onto the worker thread without cancel / join arm', 'damaged history file, then build'),
 'C05_m2': ('C05', 'cycle detection keyed on entered target names', 'cycle closing through another target of a multi-target rule'),
 'C06_m1': ('C06', 'restore race re-check replaced by matching FakeSystem-only error variant', 'System with RealSystem error variants + the losing interleaving'),
 'C06_m2': ('C06', 'early exit from wait_for_sources_ticket + SenderError tolerated at join', 'diamond with failing source sorted first and a later dependent of the other source; specific order'),
 'C08_m1': ('C08', 'stop resolving remaining targets after the first NeedsRebuild', 'multi-target rule, history hit, first target unrecoverable, later target hand-edited'),
 'C08_m2': ('C08', 'recover via <target>.recovered in three renames', 'kill between the renames'),
 'C10_m1': ('C10', 'set_is_executable(remembered.executable) after a cache restore', 'executable target restored from the cache'),
 'C10_m2': ('C10', 'clean skips targets whose recorded state is empty', 'build, clean, build, clean (state emptied by forget_replaced)'),
 'C20_m1': ('C20', 'only the last command line decides success', 'multi-line command with failing first line'),
 'C20_m2': ('C20', 'resolutions returned in pass order, not target order', 'multi-target rule, no command run, mixed already-correct / recovered'),
 'C03_m1': ('C03', 'command killed by a signal (no exit code) counts as success', 'a command that is signal-killed'),
 'C03_m2': ('C03', 'dependents released from the history before the target is back on disk', 'history hit, target absent, dependent must run, dependent scheduled before the restore'),
 'C07_m1': ('C07', 'get_file_ticket: == becomes <= (file cached under another file\'s hash)', 'older file moved onto a target, then build with new sources'),
 'C07_m2': ('C07', 'clean_targets: tickets of present targets zipped against all targets', 'rule with >= 3 targets of differing content, first one missing at clean'),
 'C09_m1': ('C09', 'clean sweeps everything still recorded in the table', 'full build, then clean <goal> with rules outside the goal'),
 'C09_m2': ('C09', 'history temp file created in the project directory', 'kill / failed rename between create and rename'),
 'C11_m1': ('C11', 'sub-directories created only together with the ruler directory', 'kill between mkdir .ruler and mkdir .ruler/history of the first build'),
 'C11_m2': ('C11', 'first history of a rule written in place', 'kill inside the first history write of a rule'),
 'C12_m1': ('C12', 'waiting prerequisite searched only above the topmost expanded frame', '4 rules, depth 3: a<-{b,c}, b<-{d}, d<-{c}'),
 'C12_m2': ('C12', 'self-dependence recognised only through the entered target', 'multi-target rule sourcing one of its other targets'),
 'C13_m1': ('C13', 'section separator glued to the last line', 'string ending in ":" moved across a section boundary'),
 'C13_m2': ('C13', 'command lines sorted before hashing', 'rule edit that only re-orders command lines'),
 'C14_m1': ('C14', 'flat sorted sections bypass the bundle parser (duplicates kept)', 'flat, sorted section with a repeated path'),
 'C14_m2': ('C14', 'empty-line test uses trim()', 'path line consisting of white space other than tab (CR, space)'),
 'C16_m1': ('C16', 'empty history file read as no history', 'zero-length history file'),
 'C16_m2': ('C16', 'entry-count sanity check sized with size_of::<FileState>()', 'table whose paths average under 7 bytes, read by the next invocation'),
 'C17_m1': ('C17', 'contradicting paths taken with Vec::remove', 'multi-target rule with two or more differing outputs'),
 'C17_m2': ('C17', 'join loop breaks after the first error', 'two rules with something to report in one build'),
 'C18_m1': ('C18', 'forget_replaced runs after hashing in the no-rebuild branch', 'tick clock; restored file with the displaced file\'s mtime + dependent'),
 'C18_m2': ('C18', 'take_blob keeps entries, insert_blob skips empty states', 'tick clock; as m1 plus one more revert-and-build'),

 'C19_m1': ('C19', 'routes rebuilt without the implicit end-of-path check', 'request path with extra segments after a cached hash / recorded pair'),
 'C19_m2': ('C19', 'server memoises decoded rule histories', 'the same server process alive across builds by another ruler process'),
 'C01b_m1': ('C01', 'targets/sources sorted after sub-indices were recorded', 'as C01_m1 (bundle order differs from string order)'),
 'C01b_m2': ('C01', 'clean files a target under its recorded hash without looking at the mtime', 'build, hand-modify target, clean, build'),
 'C01b_m3': ('C01', 'timestamp <= and forget_replaced only for downloads (two sites)', 'chain; build, edit, build, revert, build'),
 'C02b_m1': ('C02', 'histories written only after a fully successful build', 'as C02_m1'),
 'C02b_m2': ('C02', 'history written in place + zero-length file read as empty history (two sites)', 'fault between truncation and write of a history file during a later build'),
 'C02b_m3': ('C02', 'failed restore rename classified by error value', 'real file system semantics; target in a sub-directory, cleaned, its directory removed by the user'),
 'C05b_m1': ('C05', 'self-dependence test only on the entered target', 'multi-target rule sourcing one of its other targets -> deadlock'),
 'C05b_m2': ('C05', 'early exit on first cancel; four of five send sites tolerate a closed channel', 'rule with a cancelling source sorted before a missing leaf; leaf reports after the rule has left'),
 'C05b_m3': ('C05', 'failed history read: continue spawning, return after joining', 'damaged history file of a rule with a source or dependent'),
 'C06b_m1': ('C06', 'cache entry hashed between is_file and rename', 'shared cache entry; loser opens the entry after the winner renamed it'),
 'C06b_m2': ('C06', 'backup staged under <ticket>.tmp then renamed', 'two rules displacing byte-identical stale targets in one build; stage, stage, publish, publish'),
 'C06b_m3': ('C06', 'early exit on first cancel with one strict sender left', 'rule with two failing sources, the later one a missing leaf'),
 'C08b_m1': ('C08', 'absent target: all NeedsRebuild at once (no history case)', 'multi-target rule without history, absent target sorted before a hand-edited one'),
 'C08b_m2': ('C08', 'timestamp == becomes <=', 'kill after a restore before the table write, then build; or back-dated file'),
 'C08b_m3': ('C08', 'clean uses the recorded hash when there is one', 'build, hand-edit one of two identical outputs, clean'),
 'C11b_m1': ('C11', 'history serialised through an unflushed BufWriter: rename before write', 'kill between the rename and the write'),
 'C11b_m2': ('C11', 'cache/ and history/ created only with .ruler', 'as C11_m1'),
 'C11b_m3': ('C11', 'leftover current_file_states.tmp promoted before reading', 'kill during a table save after the temp file was created'),

 'C03b_m1': ('C03', 'tickets from the history sent to dependents before the targets are recovered', 'build, clean, edit another source of the dependent, build; dependent scheduled before the restore'),
 'C03b_m2': ('C03', 'final_index numbered per origin: dependents wired to the wrong rule', 'build-all where a rule with dependents is first reached from a second origin'),
 'C03b_m3': ('C03', 'only the last script line decides success', 'multi-line command with a failing non-final line'),
 'C04b_m1': ('C04', 'only the last script line decides success', 'as C04_m1'),
 'C04b_m2': ('C04', 'stale target not moved away when the cache already holds its content', 'two targets with identical content; the second rule stops producing its target'),
 'C04b_m3': ('C04', 'errors with equal text collected once', 'as C04_m2'),
 'C07b_m1': ('C07', 'timestamp == becomes <=', 'as C07_m1'),
 'C07b_m2': ('C07', 'refresh_timestamps pairs a stale ticket with the live mtime of AlreadyCorrect targets', 'build, edit, build, revert, build, build, edit, build'),
 'C07b_m3': ('C07', 'clean files a recorded target under the recorded ticket', 'build, hand-edit the target, clean'),
 'C09b_m1': ('C09', 'failed restore rename falls back to a copy through <target>.tmp', 'injected rename fault at the restore'),
 'C09b_m2': ('C09', 'goal-less clean sweeps everything still recorded in the table', 'build, delete a rule / drop a source, clean'),
 'C09b_m3': ('C09', 'goal matched as a string prefix of targets', 'goal whose name is a prefix of a target of an unrelated rule'),
 'C10b_m1': ('C10', 'clean skips a rule unless all of its targets exist', 'multi-target rule with one target missing at clean'),
 'C10b_m2': ('C10', 'recovered file gets the remembered (always false) executable bit', 'as C10_m1'),
 'C10b_m3': ('C10', 'clean uses the recorded ticket without checking the file', 'build, target changed by hand, clean'),
 'C17b_m1': ('C17', 'get_actual_file_state: == becomes <=', 'command that preserves mtimes of older inputs (cp -p)'),
 'C17b_m2': ('C17', 'contradicting paths taken with Vec::remove', 'as C17_m1'),
 'C17b_m3': ('C17', 'failed rule no longer sends cancel to its dependents', 'the contradicting rule is a source of another rule'),
 'C18b_m1': ('C18', 'clean uses the recorded ticket as is', 'build, hand-edit target, clean, build'),
 'C18b_m2': ('C18', 'take_blob keeps entries, insert_blob skips empty states', 'as C18_m2'),
 'C18b_m3': ('C18', 'table saved only when no rule failed', 'tick clock: same-mtime restore in a failing build, then build'),
 'C20b_m1': ('C20', 'one banner per rule: first target status for all targets', 'multi-target rule with mixed resolutions, no command run'),
 'C20b_m2': ('C20', 'only the last script line decides failure', 'as C20_m1'),
 'C20b_m3': ('C20', 'failures sorted and de-duplicated by message', 'two rules failing with the same message'),

 'C12b_m1': ('C12', 'stack.remove becomes stack.swap_remove when a waiting rule is moved to the top', '>= 5 rules in a particular shape and name order'),
 'C12b_m2': ('C12', 'targets/sources sorted in the Frame constructor, after sub-indices were recorded', 'multi-target rule whose parser order is not the sorted order, plus a dependent'),
 'C12b_m3': ('C12', 'self-dependence checked for every rule before the search', 'goal that does not reach a self-dependent rule; or a missing goal'),
 'C13b_m1': ('C13', 'targets no longer sorted in the sorter (history positions follow the spelling)', 'same target set re-spelled flat / nested where the two orders differ; build, re-spell, build'),
 'C13b_m2': ('C13', 'command hashed as one joined line', 'edit that only changes the line breaks of a command'),
 'C13b_m3': ('C13', 'command lines sorted before hashing', 'edit that swaps two command lines'),
 'C14b_m1': ('C14', 'repeated agreeing bundle entry overwrites the remembered line index', 'name written three times at one level, the third contradicting: the error names another (equally contradicting) earlier line'),
 'C14b_m2': ('C14', 'bundles resolved when their section closes', 'rule with two defects: malformed bundle and a later empty line / end of file: the other (equally true) diagnosis is reported'),
 'C14b_m3': ('C14', 'leaf-only directories collected without merging repeats', 'repeated entry inside a tab-indented leaf-only directory'),
 'C16b_m1': ('C16', 'empty table file read as "no states yet"', 'zero-length table file'),
 'C16b_m2': ('C16', '8 KiB decode limit on rule histories', 'history larger than 8192 bytes'),
 'C16b_m3': ('C16', 'recording an empty history is skipped', 'an empty history recorded over a populated one (or for a new rule)'),
 'C19b_m1': ('C19', 'is_file pre-check removed in SysCache::open', 'a directory in the cache under a valid hash name'),
 'C19b_m2': ('C19', 'History memoises rule histories', 'as C19_m2'),
 'C19b_m3': ('C19', 'routes rebuilt without the end-of-path check', 'as C19_m1'),
}
rows = []
for d in sorted(glob.glob('/verif/seeded/*/')):
    sid = os.path.basename(d.rstrip('/'))
    if sid not in DESC: continue
    prop, what, needs = DESC[sid]
    conf = {}
    p = '/root/mut/logs/%s.json' % sid
    if os.path.exists(p): conf = json.load(open(p))
    old = {}
    if os.path.exists(d + 'meta.json'): old = json.load(open(d + 'meta.json'))
    if not conf and 'confirmed' in old: conf = old['confirmed']
    res = json.load(open(d + 'result.json')) if os.path.exists(d + 'result.json') else {}
    meta = {'id': sid, 'breaks_property': prop, 'change': what, 'needs_to_manifest': needs,
            'origin': 'reverse of a fix: commit in /repo' if sid.startswith('D') else 'independent sub-agent given only the property text and a scratch worktree',
            'confirmed': conf or ('the reverse patch restores the pinned behaviour; suite 209/209 (it passed on the pinned tree)' if sid.startswith('D') else {}),
            'ran': {k: {'exit': v['exit'], 'violations': v['violations'], 'divergences': v['divergences']} for k, v in res.items()}}
    json.dump(meta, open(d + 'meta.json', 'w'), indent=1)
    det = [k for k, v in res.items() if v['exit'] == 1]
    rows.append((sid, prop, what, needs, ', '.join('%s (%s)' % (k, '; '.join(sorted(set(x.split('(')[-1].rstrip(')') for x in res[k]['violations'])))) for k in det) or ('NOT DETECTED by ' + ', '.join(res.keys()) if res else 'not run')))
with open('/verif/seeded/README.md', 'w') as f:
    f.write('# Seeded changes and the checks that report them\n\nEach directory holds `patch.diff` (applies to /repo at HEAD), the demonstration written by its author, `meta.json` and `result.json` (what `./check <property>` printed with the change applied; quick tier, seed 1).\n\n| id | property | change | needs | reported by |\n|---|---|---|---|---|\n')
    for r in rows: f.write('| %s | %s | %s | %s | %s |\n' % r)
print(len(rows), 'rows')
