#!/usr/bin/env python3
"""confirm_seed.py <scratch worktree> <m1|m2..> <new id> <property> : confirms a candidate change delivered by a sub-agent in <worktree>/_out/<mK>
(the unedited suite passes with it; its demonstration fails with it and passes without it) and, if so, files it as /verif/seeded/<new id>/."""
import sys, os, re, subprocess, json, shutil
wt, mk, sid, prop = sys.argv[1:5]
out = '%s/_out/%s' % (wt, mk)
def sh(c): return subprocess.run(c, shell=True, stdout=subprocess.PIPE, stderr=subprocess.STDOUT, text=True, cwd=wt)
def clean(): sh('git checkout -- . && git clean -qfd src')
def suite():
    r = sh('cargo test --offline -j 8 2>&1 | grep "^test result" | head -1')
    m = re.search(r'(\d+) passed; (\d+) failed', r.stdout)
    return (int(m.group(1)), int(m.group(2))) if m else (-1, -1)
def demo():
    """returns 'pass' / 'fail' for the demonstration on the tree as it is"""
    res = []
    if os.path.exists(out + '/demo.diff'):
        if sh('git apply %s/demo.diff' % out).returncode != 0: return 'demo.diff does not apply'
        p, f = suite(); res.append('pass' if f == 0 and p > 209 else 'fail (%d passed, %d failed)' % (p, f))
        sh('git apply -R %s/demo.diff' % out)
    elif os.path.exists(out + '/demo.sh'):
        r = sh('bash %s/demo.sh %s' % (out, wt)); res.append('pass' if r.returncode == 0 else 'fail (exit %d)' % r.returncode)
    return res[0] if res else 'no demonstration'
clean()
if sh('git apply %s/patch.diff' % out).returncode != 0: print(sid, 'patch does not apply'); sys.exit(1)
with_suite = suite()
with_demo = demo()
clean()
without_demo = demo()
clean()
ok = with_suite == (209, 0) and with_demo.startswith('fail') and without_demo == 'pass'
print(sid, 'suite with patch', with_suite, '| demo with patch:', with_demo, '| demo without:', without_demo, '=>', 'CONFIRMED' if ok else 'NOT CONFIRMED')
if not ok: sys.exit(1)
d = '/verif/seeded/' + sid
os.makedirs(d, exist_ok=True)
for f in os.listdir(out): shutil.copy(out + '/' + f, d + '/' + f)
readme = open(out + '/README.md').read() if os.path.exists(out + '/README.md') else ''
json.dump({'id': sid, 'breaks_property': prop, 'change': '', 'needs_to_manifest': '', 'origin': 'independent sub-agent given only the property text and a scratch worktree',
           'confirmed': {'id': sid, 'suite_with_patch': '%d passed; %d failed' % with_suite, 'demo_with_patch': with_demo, 'demo_without_patch': without_demo}, 'ran': {}},
          open(d + '/meta.json', 'w'), indent=1)
