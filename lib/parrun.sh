#!/bin/bash
# parrun.sh <N workers> <job file>: each line of the job file is "<name> <patch.diff> <check> [<check>...]"; the jobs are run with the committed
# machinery on N parallel copies of /verif (lib/wtrun.py: scratch worktrees of /repo, never /repo itself); output: /tmp/parrun_<w>.out
N=$1; jobs=$2
cd /verif
rm -f /tmp/parrun_*.lst /tmp/parrun_*.out
i=0; while read -r line; do [ -z "$line" ] && continue; echo "$line" >> /tmp/parrun_$((i % N)).lst; i=$((i+1)); done < $jobs
for w in $(seq 0 $((N-1))); do
  [ -f /tmp/parrun_$w.lst ] || continue
  ( d=/tmp/vp$w; rm -rf $d; git -C /verif worktree prune; git -C /verif worktree add -q --detach $d HEAD
    while read -r name patch checks; do
      WT_TARGET=/tmp/wt/target_w$w VERIF_DIR=$d python3 /verif/lib/wtrun.py $patch p${w}_$name $checks
    done < /tmp/parrun_$w.lst
    git -C /verif worktree remove --force $d ) > /tmp/parrun_$w.out 2>&1 &
done
wait
cat /tmp/parrun_*.out
