#!/usr/bin/env python3
import json
props = {json.loads(l)['id']: json.loads(l) for l in open('/verif/properties.jsonl')}
CORE_TXT = {
 'C01': ('all histories of the bounded alphabet on small graphs are model-checked (TLC, exhaustive within MaxUser); the real build()/clean() is driven over the same and over random histories and graphs, every recorded event is explained by the specification and C01_ScratchEqual (targets = from-scratch evaluation) is evaluated by TLC in every recorded state', '5.3, 7/C01'),
 'C02': ('TLC exhaustive on history configs incl. shared cache entries; implementation traces (random, model-generated covers) validated; C02_AtMostOnce, C02_NoNeedlessRun (harness-recorded earlier executions + pre-build cache), C02_RepeatIsNoOp evaluated on every recorded return', '7/C02'),
 'C03': ('all interleavings of the shared steps of one build on diamond / fan-in / failing graphs are model-checked; recorded executions under random and model-generated schedules validated; C03_SourcesFinal (what each command read = final = from-scratch content) and C03_ProducersDone', '7/C03'),
 'C04': ('failing rules / missing leaves at every position (menu) x all interleavings model-checked; recorded failing builds validated: exact error bag, dependents never run, others built, nothing remembered, retried', '7/C04'),
 'C05': ('deadlock freedom, no channel error, no panic on all interleavings of the model; the scheduler shim detects deadlock / panic / hang in the real code under random and model-generated schedules incl. damaged state files and invalid graphs; an invocation that exceeds the step budget (in process) or 30 s (real binary) is recorded as hanging; the real binary is also run with a standard output that cannot be written and with removed workspace directories', '7/C05'),
 'C06': ('model: every interleaving of the last build of scripted histories gives one outcome (OUTCOME probe); implementation: TLC transition cover (every (event, state) edge of the model) and the counterexample of the pre-repair model replayed under the deterministic scheduler, each compared with the serial schedule on a copy; on the real file system with real threads: 16-27 independent rules with byte-identical outputs competing for one cache entry (C06_NoSpuriousFailure)', '6.6, 7/C06'),
 'C07': ('C07_ContentAddressed is an invariant of every model state incl. crash states; on the implementation the projection recomputes each cache file name from its bytes with an independent SHA-256 at every return and at every crash snapshot', '7/C07'),
 'C08': ('C08_NothingLost in every model state; implementation: every return and every crash snapshot (after each mutating System call, one torn prefix per write) of random and model-generated histories; overwrites by ruler itself are logged by the instrumented System', '7/C08'),
 'C09': ('frame condition C09_OnlyScopeTouched model-checked for every goal choice; implementation: content, stamp and mode of every out-of-scope path compared across each invocation, plus the list of paths ruler itself mutated; ruler makes no workspace directory (C09_NoDirMade); the real binary on the real file system is judged by the same predicates', '7/C09'),
 'C10': ('clean / build goal pairs model-checked incl. equal contents and executable outputs; implementation traces validated: C10_CleanMovesToCache, C10_BuildBringsBack; plus clean/build round trips of the real binary with shell commands on the real file system judged by RealFs.tla', '7/C10'),
 'C11': ('crash action enabled between all steps in the model; implementation: snapshot after every mutating call of the interrupted invocation of random and model-generated histories, recovery build from each, validated by TLC (C11_CrashStateSane, C11_Recovers, C07, C08 at the crash instant)', '7/C11'),
 'C17': ('rules with an undeclared input on every subset of a 2-target rule model-checked; implementation traces with env changes validated: C17_ContradictionReported (exact paths, both directions) and C17_HistoryKept; the real binary with an undeclared input file on the real file system (profile realenv)', '7/C17'),
 'C18': ('tick-clock model checked with the auxiliary invariants (table truth, sent-hash truth); the counterexample of the pre-repair model (D4) and random histories are run twice in the implementation (with and without the table) and TLC compares verdict and contents (C18_Twin) under both clock models; the real binary runs every real-file-system history twice as well', '7/C18'),
 'C20': ('status lines are part of the return event of the model; implementation: Printer calls compared by TLC with what the logged operations say (executed / taken from cache / untouched), one line per target of every finished rule, none for failed or cancelled ones; for the real binary the part that needs no knowledge of takes and back-ups (C20_StatusReal) and C20_FailuresOnce on its printed report', '7/C20'),
}
SAT_TXT = {
 'C12': ('the DFS of sort.rs transcribed in TLA+ is model-checked against the declarative oracle for every graph on <=4 (5) rules x every goal; the real topological_sort[_all] is run on every graph on 3 (4) rules, multi-target and random larger graphs incl. duplicates / self-loops / cycles, each in two input orders, and TLC judges every (input, output) record with the oracle (Sort.tla); plus end-to-end: invalid graphs are rejected by build/clean', '7/C12'),
 'C13': ('TLC: the byte string hashed for a rule is an injective function of (target set, source set, command sequence) over a universe of parser-producible strings; real get_ticket equality on pairs incl. near-misses judged by TLC against Canon equality (Identity.tla)', '7/C13'),
 'C14': ('every line sequence of length <=5 (6) over a 7-letter line alphabet, rendered random rule files with nested bundles, single-edit corruptions and token soup are parsed by the real rule::parse; TLC judges each record with the declarative grammar (RulesGrammar.tla): accept/reject, sets and command lines, error kind and line, invariance under permuting sibling lines', '7/C14'),
 'C19': ('ruler directories are produced by the real binary with shell commands on the real file system, `ruler serve` is started on the loopback interface and asked for every cached hash, every recorded (rule, sources) pair, absent well-formed names and hostile names (wrong length, foreign characters, overflow, encoded ../, extra segments); TLC judges every (request class, answer) record with Server.tla: 200 + exact bytes exactly for what is held, 404 otherwise, server still answering', '7/C19'),
 'C15': ('SHA-256 (FIPS 180-4) and the 43-character base-62 form are written out as TLA+ operators (Sha256.tla, Base62.tla, Ticket.tla); TLC checks the FIPS example digests, the padding for every length 0..300 and, exhaustively on the scaled-down instance (2 bytes / 3 digits, same operators), that the text form is a bijection and that exactly the encodings are accepted; the real TicketFactory / Ticket are run in process (files of every length 0..1100 and larger ones read through short reads, factories fed in pieces, 256-bit edge values, candidate strings of length 0..60 with foreign and non-ASCII characters, pairs of directory trees with single-point and concatenation-preserving changes) and the real binary (`ruler hash` on real files up to 300 kB and real directory trees, different paths and ages); TLC computes the expected digest and text itself and judges every record', '17'),
 'C16': ('state files written by ruler itself, every strict prefix / bit flip of small ones, junk and appended bytes are read back by the real readers; TLC judges (damage class, outcome) with Persist.tla; end-to-end: damaged table / history make build return the matching error (C16_DamagedRejected) and every validated trace compares the decoded files with the model state', '7/C16'),
}
checks = []
for pid in sorted(list(CORE_TXT) + list(SAT_TXT)):
    txt, ref = (CORE_TXT.get(pid) or SAT_TXT.get(pid))
    checks.append({
        'property_id': pid,
        'quick_cmd': './check %s --tier quick' % pid,
        'thorough_cmd': './check %s --tier thorough' % pid,
        'evidence_file': '/verif/evidence/%s.json' % pid,
        'replay_cmd_template': './check replay {path}',
        'engine': 'tlc+rvh',
        'level_claimed': {'category': 'model_checking', 'text': txt, 'design_ref': ref},
        'level_note': ('bounded: small constants in the model, finite sets of recorded executions; trusted: TLC, the harness (instrumented System, scheduler shim, projection with its own SHA-256 / bincode reader), the harness command language standing in for user commands' +
                       ('; the real file system part uses one fixed 4-rule graph with sh commands (RealFs.tla)' if pid == 'C10' else '')),
        'technique': 'TLA+ specification model-checked with TLC; implementation traces (random, TLC-generated behaviours replayed under a deterministic scheduler, crash snapshots) validated by TLC against the specification with the property as invariant' if pid in CORE_TXT else 'TLA+ oracle specification; TLC model checking of the transcribed algorithm / encoding; TLC judges (input, output) records of the real code',
    })
m = {
 'version': 1,
 'setup_cmd': 'mkdir -p /verif/work /verif/evidence && cd /verif/harness && CARGO_NET_OFFLINE=true cargo build --release --offline --bin rvreal --bin ruler_real && if CARGO_NET_OFFLINE=true cargo build --release --offline --features verif --bin rvh; then ./target/release/rvh selftest --data abc | tail -1 | grep -q ba7816bf8f01cfea414140de5dae2223b00361a396177a9cb410ff61f20015ad; else echo "the in-process harness does not build against this tree: each check reports it and judges the real binary alone"; fi',
 'hooks': {'guard': 'cargo feature `verif`', 'enable': 'the harness crate (/verif/harness) compiles /repo/src/*.rs with --features verif', 'baseline_off_cmd': 'cd /repo && cargo test --workspace --no-fail-fast --offline',
           'source_commits': ['2087104', 'a3b643c', 'd4fa582', '84b47dc', '82a062f'], 'add_only': True},
 'engines': [{'name': 'tlc+rvh', 'path': '/verif/check', 'serves_properties': [c['property_id'] for c in checks], 'kind_free_text': 'TLA+ specifications under /verif/spec checked by TLC; Rust conformance harness /verif/harness (rvh) driving the real code; python driver /verif/check'}],
 'checks': checks,
 'not_applicable': [
   ],
 'notes': 'All checks rebuild the harness from /repo/src. exit 2 = tool error. DIVERGENCE lines report executions that the strict trace validator rejects while no property predicate fails (not a violation).',
}
json.dump(m, open('/verif/MANIFEST.json', 'w'), indent=1)
print(len(checks), 'checks')
