#!/usr/bin/env python3
"""wtrun.py <patch.diff|-> <name> <checks...>: applies a change in a scratch worktree of /repo (never in /repo itself), points the harness
at it through RULER_SRC, runs the named checks and prints what they reported.  With VERIF_DIR=<copy of /verif> the checks of that copy are
used (parallel workers).  When the patch is /verif/seeded/<id>/patch.diff the result is recorded in /verif/seeded/<id>/result.json.
For the checks that drive the real command-line tool the binary is built from the scratch worktree too (RULER_REAL_BIN)."""
import sys, os, subprocess, re, json, time
patch, name, props = sys.argv[1], sys.argv[2], sys.argv[3:]
vdir = os.environ.get('VERIF_DIR', '/verif')
wt = '/tmp/wt/run_' + name
def sh(c, env=None):
    e = dict(os.environ); e.update(env or {})
    return subprocess.run(c, shell=True, stdout=subprocess.PIPE, stderr=subprocess.STDOUT, text=True, env=e)
sh('git -C /repo worktree remove --force %s' % wt)
if sh('git -C /repo worktree add -q --detach %s HEAD' % wt).returncode != 0: print('cannot create worktree'); sys.exit(2)
res = {}
try:
    if patch != '-' and sh('git -C %s apply %s' % (wt, patch)).returncode != 0: print('patch does not apply'); sys.exit(2)
    env = {'RULER_SRC': wt + '/src'}
    if any(p in ('C01', 'C02', 'C04', 'C05', 'C06', 'C07', 'C08', 'C09', 'C10', 'C15', 'C17', 'C18', 'C19', 'C20') for p in props):
        # these checks also drive the real command-line tool: build it from the scratch worktree (shared dependency build)
        tdir = os.environ.get('WT_TARGET', '/tmp/wt/target_shared')
        b = sh('cd %s && CARGO_TARGET_DIR=%s cargo build --release --offline -q' % (wt, tdir))
        if b.returncode != 0: print('real binary does not build:', b.stdout[-500:]); sys.exit(2)
        env['RULER_REAL_BIN'] = tdir + '/release/ruler'
    for p in props:
        t0 = time.time()
        r = sh('cd %s && ./check %s' % (vdir, p), env=env)
        lines = [l for l in r.stdout.split('\n') if re.match(r'VIOLATION|DIVERGENCE|TOOL-ERROR|KNOWN', l)]
        v = sorted(set(re.sub(r'replay=\S+', '', l) for l in lines if l.startswith('VIOLATION')))[:6]
        res[p] = {'exit': r.returncode, 'wall_s': round(time.time() - t0), 'violations': v, 'divergences': len([l for l in lines if l.startswith('DIVERGENCE')]),
                  'tool_error': [l[:300] for l in lines if l.startswith('TOOL-ERROR')][:1]}
        print(name, p, 'exit', r.returncode, v[:3], 'div', res[p]['divergences'], res[p]['tool_error'], '%ds' % (time.time() - t0), flush=True)
finally:
    sh('git -C /repo worktree remove --force %s' % wt)
    if vdir == '/verif': sh('git -C /verif checkout -- evidence')
m = re.match(r'/verif/seeded/([^/]+)/patch.diff$', patch)
if m and res:
    f = '/verif/seeded/%s/result.json' % m.group(1)
    old = json.load(open(f)) if os.path.exists(f) else {}
    old.update(res); json.dump(old, open(f, 'w'), indent=1)
