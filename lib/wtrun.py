#!/usr/bin/env python3
"""wtrun.py <patch.diff> <name> <checks...>: applies a change in a scratch worktree of /repo (never in /repo itself), points the harness
at it through RULER_SRC, runs the named checks and prints what they reported.  Used for trying out changes while /repo is in use."""
import sys, os, subprocess, re, json, time
patch, name, props = sys.argv[1], sys.argv[2], sys.argv[3:]
wt = '/tmp/wt/run_' + name
def sh(c, env=None):
    e = dict(os.environ); e.update(env or {})
    return subprocess.run(c, shell=True, stdout=subprocess.PIPE, stderr=subprocess.STDOUT, text=True, env=e)
sh('git -C /repo worktree remove --force %s' % wt)
if sh('git -C /repo worktree add -q --detach %s HEAD' % wt).returncode != 0: print('cannot create worktree'); sys.exit(2)
try:
    if patch != '-' and sh('git -C %s apply %s' % (wt, patch)).returncode != 0: print('patch does not apply'); sys.exit(2)
    for p in props:
        t0 = time.time()
        r = sh('cd /verif && ./check %s' % p, env={'RULER_SRC': wt + '/src'})
        lines = [l for l in r.stdout.split('\n') if re.match(r'VIOLATION|DIVERGENCE|TOOL-ERROR|KNOWN', l)]
        v = sorted(set(re.sub(r'replay=\S+', '', l) for l in lines if l.startswith('VIOLATION')))[:4]
        print(name, p, 'exit', r.returncode, v, 'div', len([l for l in lines if l.startswith('DIVERGENCE')]), [l[:200] for l in lines if l.startswith('TOOL')][:1], '%ds' % (time.time() - t0), flush=True)
finally:
    sh('git -C /repo worktree remove --force %s' % wt)
    sh('git -C /verif checkout -- evidence')
    # rebuild against /repo next time
