#!/usr/bin/env python3
"""Driver library: builds the harness from /repo's working tree, runs TLC (model checking, trace validation,
observation mode), classifies what TLC reports, writes evidence files."""
import json, os, re, subprocess, sys, time, hashlib, shutil, tempfile

ROOT = os.path.dirname(os.path.dirname(os.path.abspath(__file__)))     # /verif, or a snapshot of it (vp run)
SPEC = ROOT + '/spec'
HARN = ROOT + '/harness'
WORK = ROOT + '/work'
RVH = HARN + '/target/release/rvh'
# the real command-line tool: built from /repo by the harness crate, or given (a build of a scratch worktree, see lib/wtrun.py)
REAL_BIN = os.environ.get('RULER_REAL_BIN', HARN + '/target/release/ruler_real')
NOISE = re.compile(r'^(The field|named|In TLA|Therefore|.*field in the record|\s*$|Parsing|Semantic|Linting|line [0-9]|Picked up)')

class ToolError(Exception):
    pass

def sh(cmd, timeout=3600, cwd=None, env=None):
    e = dict(os.environ)
    if env: e.update(env)
    try:
        p = subprocess.run(cmd, shell=isinstance(cmd, str), cwd=cwd, env=e, stdout=subprocess.PIPE, stderr=subprocess.STDOUT, timeout=timeout, text=True, errors='replace')
    except subprocess.TimeoutExpired:
        raise ToolError('timeout after %ds: %s' % (timeout, str(cmd)[:200]))
    return p.returncode, p.stdout

class HarnessBuildError(ToolError):
    pass

RVREAL = HARN + '/target/release/rvreal'

def build_harness(real=False, inproc=True):
    """real: the drivers that run the real binary (rvreal; nothing of /repo is compiled into it) and the real `ruler` of the current tree,
    built with the guard off;  inproc: the in-process harness (rvh: /repo/src/*.rs compiled with the feature `verif`)"""
    t0 = time.time()
    env = {'CARGO_NET_OFFLINE': 'true'}
    if real:
        bins = '--bin rvreal' + (' --bin ruler_real' if 'RULER_REAL_BIN' not in os.environ else '')
        rc, out = sh('cargo build --release --offline ' + bins, cwd=HARN, timeout=3000, env=env)
        if rc != 0:
            sys.stdout.write(out[-4000:])
            raise ToolError('the real binary of the current tree does not build')
    if inproc:
        rc, out = sh('cargo build --release --offline --features verif --bin rvh', cwd=HARN, timeout=3000, env=env)
        if rc != 0:
            sys.stdout.write(out[-4000:])
            raise HarnessBuildError('harness build failed (the code under /repo/src no longer compiles with the harness)')
    return time.time() - t0

def harness(args, timeout=3000):
    rc, out = sh([RVREAL if args[0] in ('realobs', 'realfs', 'serve', 'hash') else RVH] + args, timeout=timeout)
    if rc != 0:
        raise ToolError('harness %s exited %d: %s' % (args[:2], rc, out[-2000:]))
    last = [l for l in out.strip().split('\n') if l.startswith('{')]
    return json.loads(last[-1]) if last else {}

# ---------------------------------------------------------------- TLC: model checking
NCPU = os.cpu_count() or 4

def tlc_mc(cfg, module, workers=None, timeout=1500, overrides=None, extra='', keep_output=False):
    """runs TLC on spec/<cfg>.cfg with spec/<module>.tla; overrides: {'MaxUser': 6} textual replacement in a copy of the cfg"""
    # the models are small (10^4 - 10^6 states): beyond 8 workers TLC mostly spins; never more workers than cores
    if workers is None: workers = max(2, min(8 if timeout <= 600 else 16, NCPU))
    os.makedirs(WORK, exist_ok=True)
    cfgpath = SPEC + '/' + cfg + '.cfg'
    if overrides:
        txt = open(cfgpath).read()
        for k, v in overrides.items():
            txt, n = re.subn(r'(?m)^(\s*%s\s*=\s*).*$' % re.escape(k), lambda m: m.group(1) + str(v), txt)
            if n != 1: raise ToolError('override %s not applicable in %s' % (k, cfg))
        cfgpath = SPEC + '/_ovr_%s_%d.cfg' % (cfg, os.getpid())
        open(cfgpath, 'w').write(txt)
    md = tempfile.mkdtemp(prefix='tlcmd', dir=WORK)
    t0 = time.time()
    try:
        rc, out = sh('timeout %d tlc -workers %d -metadir %s -cleanup -noGenerateSpecTE %s -config %s %s.tla' % (timeout, workers, md, extra, cfgpath, module), cwd=SPEC, timeout=timeout + 60)
    finally:
        shutil.rmtree(md, ignore_errors=True)
        if overrides: os.remove(cfgpath)
    lines = [l for l in out.split('\n') if not NOISE.match(l)]
    res = {'cfg': cfg, 'module': module, 'wall_s': round(time.time() - t0, 1), 'states': 0, 'distinct': 0, 'violated': None, 'complete': False, 'outcomes': []}
    for l in lines:
        m = re.search(r'(\d+) states generated, (\d+) distinct states found', l)
        if m: res['states'], res['distinct'] = int(m.group(1)), int(m.group(2))
        m = re.search(r'Invariant (\S+) is violated', l)
        if m: res['violated'] = m.group(1)
        if 'Model checking completed. No error has been found' in l: res['complete'] = True
        m = re.search(r'Progress: (\d+) states checked, (\d+) traces generated', l)
        if m: res['states'], res['sim_traces'] = int(m.group(1)), int(m.group(2))
        if '-simulate' in extra and l.startswith('Finished in') and not res['violated']: res['complete'] = True
        if 'Temporal properties were violated' in l: res['violated'] = 'temporal property'
        if 'Checking temporal properties for the complete state space' in l: res['liveness_checked'] = True
        if l.startswith('<<"OUTCOME"'): res['outcomes'].append(l)
    if rc == 124: res['timeout'] = True
    if not res['complete'] and not res['violated'] and rc != 124:
        raise ToolError('TLC failed on %s: %s' % (cfg, '\n'.join(lines[-25:])))
    res['tail'] = lines[-12:]
    if keep_output: res['output'] = out
    return res

def emit_lines():
    """line of the Emit conjunct (= the action was taken to its end) of every action of Ruler.tla"""
    out, cur = {}, None
    for i, l in enumerate(open(SPEC + '/Ruler.tla'), 1):
        m = re.match(r'^([A-Z][A-Za-z0-9]+)(\([^)]*\))? ==', l)
        if m: cur = m.group(1)
        if cur and 'Emit(' in l and not l.startswith('Emit'): out.setdefault(cur, i)
    return out

def mc_action_coverage(cfg, module, overrides=None, timeout=900):
    """how often each action of the core specification was taken in a model-checking run (TLC -coverage)"""
    r = tlc_mc(cfg, module, overrides=overrides, timeout=timeout, extra='-coverage 1', keep_output=True)
    el = emit_lines(); counts = {a: 0 for a in el}
    for l in r.pop('output', '').split('\n'):
        m = re.match(r'^\s*\|*line (\d+), col \d+ to line \d+, col \d+ of module Ruler: (\d+)', l)
        if m:
            for a, ln in el.items():
                if int(m.group(1)) == ln: counts[a] = max(counts[a], int(m.group(2)))
    return counts

def outcomes_consistent(res):
    """C06 at model level: all returns of the build at the same history position have the same outcome"""
    by = {}
    for l in res['outcomes']:
        m = re.match(r'<<"OUTCOME", (\d+), (.*)>>$', l)
        if m: by.setdefault(m.group(1), set()).add(m.group(2))
    bad = {k: v for k, v in by.items() if len(v) > 1}
    return by, bad

# ---------------------------------------------------------------- TLC: trace validation
def tlc_trace(module, cfg, trace, timeout=3000):
    md = tempfile.mkdtemp(prefix='tlctv', dir=WORK)
    env = {'TRACE': trace, 'JAVA_TOOL_OPTIONS': '-Xss1g -Dtlc2.tool.queue.IStateQueue=StateDeque'}
    try:
        rc, out = sh('timeout %d tlc -workers 1 -metadir %s -cleanup -noGenerateSpecTE -config %s.cfg %s.tla' % (timeout, md, cfg, module), cwd=SPEC, timeout=timeout + 60, env=env)
    finally:
        shutil.rmtree(md, ignore_errors=True)
    viol, accepted, rejected, err, diverged = [], None, None, None, []
    for l in out.split('\n'):
        m = re.match(r'<<"VIOLATED", "(\w+)", "([^"]*)", (\d+)>>', l)
        if m: viol.append((m.group(1), m.group(2), int(m.group(3))))
        m = re.match(r'<<"DIVERGED", "(\w+)", "([^"]*)", (\d+)>>', l)
        if m: diverged.append((m.group(1), m.group(2), int(m.group(3))))
        m = re.match(r'<<"ACCEPTED", (\d+)>>', l)
        if m: accepted = int(m.group(1))
        m = re.match(r'<<\s*"REJECTED",\s*(\d+)', l)
        if m: rejected = int(m.group(1))
    if accepted is None and rejected is None:
        m = re.search(r'<<\s*"REJECTED",\s*(\d+)', out)
        if m: rejected = int(m.group(1))
    if accepted is None and rejected is None:
        lines = [l for l in out.split('\n') if not NOISE.match(l)]
        raise ToolError('TLC trace validation failed (%s): %s' % (module, '\n'.join(lines[-30:])[:4000]))
    return {'violations': viol, 'accepted': accepted, 'rejected': rejected, 'diverged': diverged}

def read_trace(path):
    return [l for l in open(path).read().split('\n') if l]

def scenarios_of(lines):
    """[(scn id, first line index, last+1)] (0-based)"""
    out, start, sid = [], None, None
    for i, l in enumerate(lines):
        if l.startswith('{"a":"reset"'):
            if start is not None: out.append((sid, start, i))
            start, sid = i, json.loads(l)['sc']
    if start is not None: out.append((sid, start, len(lines)))
    return out

def validate(trace, tick=False, label=''):
    """strict validation of all scenarios; a rejected scenario is classified in observation mode and validation
    continues behind it.  Returns dict(events, scenarios, violations=[(inv, scn)], divergences=[(scn, line, obs_violations)])"""
    lines = read_trace(trace)
    scs = scenarios_of(lines)
    suffix = '_tick' if tick else ''
    res = {'events': len(lines), 'scenarios': len(scs), 'violations': [], 'divergences': [], 'strict_accepted_events': 0}
    offset = 0            # index of the first line not yet validated
    cur = trace
    guard = 0
    while offset < len(lines):
        guard += 1
        if guard > 3:
            # the implementation keeps leaving the model: judge the remaining scenarios in observation mode only
            o = tlc_trace('RulerObs', 'RulerObs' + suffix, cur)
            for (inv, scn, ln) in o['violations']: res['violations'].append((inv, scn))
            res['divergences'].append({'scenario': '(all scenarios after the third divergence)', 'line': 0, 'event': '', 'observed_property_failures': sorted(set(v[0] for v in o['violations'])), 'file': cur})
            break
        r = tlc_trace('RulerTrace', 'RulerTrace' + suffix, cur)
        for (inv, scn, ln) in r['violations']: res['violations'].append((inv, scn))
        if r['accepted'] is not None:
            res['strict_accepted_events'] += r['accepted']
            break
        bad = offset + r['rejected'] - 1            # 0-based index of the unexplained record
        sc = [s for s in scs if s[1] <= bad < s[2]][0]
        res['strict_accepted_events'] += max(0, sc[1] - offset)
        # violations reported inside the rejected scenario before the rejection are kept; classify the scenario in observation mode
        one = os.path.join(WORK, 'div_%s_%s.ndjson' % (label, re.sub(r'\W', '_', sc[0])))
        open(one, 'w').write('\n'.join(lines[sc[1]:sc[2]]) + '\n')
        o = tlc_trace('RulerObs', 'RulerObs' + suffix, one)
        obs = sorted(set(v[0] for v in o['violations']))
        for inv in obs: res['violations'].append((inv, sc[0]))
        res['divergences'].append({'scenario': sc[0], 'line': bad - sc[1] + 1, 'event': lines[bad][:300], 'observed_property_failures': obs, 'file': one})
        offset = sc[2]
        if offset >= len(lines): break
        cur = os.path.join(WORK, 'rest_%s_%d.ndjson' % (label, guard))
        open(cur, 'w').write('\n'.join(lines[offset:]) + '\n')
    res['violations'] = sorted(set(res['violations']))
    return res, lines, scs

def validate_obs(trace, cfg='RulerObsReal'):
    """observation mode only (executions of the real binary: free-running threads, no step-level conformance)"""
    lines = read_trace(trace)
    scs = scenarios_of(lines)
    o = tlc_trace('RulerObs', cfg, trace)
    if o['accepted'] is None: raise ToolError('observation-mode pass stopped at record %s of %s' % (o['rejected'], trace))
    res = {'events': len(lines), 'scenarios': len(scs), 'violations': sorted(set((v[0], v[1]) for v in o['violations'])), 'divergences': [], 'strict_accepted_events': 0}
    return res, lines, scs

def extract_scenario(lines, scs, scn, dest):
    for (sid, a, b) in scs:
        if sid == scn:
            os.makedirs(os.path.dirname(dest), exist_ok=True)
            open(dest, 'w').write('\n'.join(lines[a:b]) + '\n')
            return dest
    return None

def spec_key(cfg):
    """identifies the specification a generated artifact belongs to: every module under spec/ and the configuration"""
    h = hashlib.sha256()
    for f in sorted(os.listdir(SPEC)):
        if f.endswith('.tla') and not f.startswith('_'): h.update(f.encode()); h.update(open(SPEC + '/' + f, 'rb').read())
    h.update(open('%s/%s.cfg' % (SPEC, cfg), 'rb').read())
    return h.hexdigest()[:16]

def gen_behaviours(cfg, module, out, simulate=None, timeout=900, seed=1, cap=None, header_extra=None, cached=False):
    """TLC as generator: transition cover (BFS under EdgeView) or -simulate; writes header + one behaviour per line.
    cached: the exhaustive search behind this configuration is long (a counterexample of the pre-repair model found by brute force);
    its output - a function of the specification files alone - is kept in spec/cache/<cfg>.json together with the key of the
    specification it was generated from, and generated again whenever a module or the configuration has changed."""
    cfile = '%s/cache/%s.json' % (SPEC, cfg)
    if cached and os.path.exists(cfile):
        c = json.load(open(cfile))
        if c.get('spec_key') == spec_key(cfg):
            hdr = c['header']
            if header_extra:
                h = json.loads(hdr); h.update(header_extra); hdr = json.dumps(h)
            with open(out, 'w') as f:
                f.write(hdr + '\n')
                for p in c['behaviours']: f.write(p + '\n')
            return {'cfg': cfg, 'behaviours': len(c['behaviours']), 'states': c['states'], 'distinct': c['distinct'], 'from_cache': 'spec/cache/%s.json (TLC output for specification %s)' % (cfg, c['spec_key'])}
    md = tempfile.mkdtemp(prefix='tlcgen', dir=WORK)
    extra = ('-simulate num=%d -depth 400 -seed %d' % (simulate, seed)) if simulate else ''
    try:
        rc, o = sh('timeout %d tlc -workers %d -metadir %s -cleanup -noGenerateSpecTE %s -config %s.cfg %s.tla' % (timeout, 1 if simulate else 4, md, extra, cfg, module), cwd=SPEC, timeout=timeout + 60)
    finally:
        shutil.rmtree(md, ignore_errors=True)
    hdr, pre, st = None, [], (0, 0)
    for l in o.split('\n'):
        if l.startswith('<<"SCENARIO", '): hdr = json.loads(l[len('<<"SCENARIO", '):-2])
        elif l.startswith('<<"PREFIX", '): pre.append(json.loads(l[len('<<"PREFIX", '):-2]))
        m = re.search(r'(\d+) states generated, (\d+) distinct states found', l)
        if m: st = (int(m.group(1)), int(m.group(2)))
    if hdr is None or not pre:
        raise ToolError('generator %s produced nothing: %s' % (cfg, o[-1500:]))
    pre = sorted(set(pre))
    if cap and len(pre) > cap:
        import random
        random.Random(seed).shuffle(pre); pre = pre[:cap]
    if cached:
        try:
            os.makedirs(SPEC + '/cache', exist_ok=True)
            json.dump({'spec_key': spec_key(cfg), 'cfg': cfg, 'module': module, 'header': hdr, 'behaviours': pre, 'states': st[0], 'distinct': st[1]}, open(cfile, 'w'), indent=0)
        except OSError: pass
    if header_extra:
        h = json.loads(hdr); h.update(header_extra); hdr = json.dumps(h)
    with open(out, 'w') as f:
        f.write(hdr + '\n')
        for p in pre: f.write(p + '\n')
    return {'cfg': cfg, 'behaviours': len(pre), 'states': st[0], 'distinct': st[1]}

def crash_refinement(cfg, module, work):
    """every crash snapshot of the implementation (state after each mutating call of the last invocation of a scripted
    history, without stamps) must be one of the crash states of the model for that history (all interleavings, finer crash points)"""
    md = tempfile.mkdtemp(prefix='tlccs', dir=WORK)
    try:
        rc, o = sh('timeout 900 tlc -workers 4 -metadir %s -cleanup -noGenerateSpecTE -config %s.cfg %s.tla' % (md, cfg, module), cwd=SPEC, timeout=960)
    finally:
        shutil.rmtree(md, ignore_errors=True)
    def canon(st):
        return json.dumps({'ws': {p: {'c': f['c'], 'x': f['x']} for p, f in st['ws'].items()},
                           'cache': {p: {'c': f['c'], 'x': f['x']} for p, f in st['cache'].items()},
                           'hist': st['hist'], 'fstab': {p: {'h': f['h'], 'x': f['x']} for p, f in st['fstab'].items()},
                           'rdir': {k: st['rdir'][k] for k in ('root', 'cache', 'hist', 'tab')}}, sort_keys=True)
    model, hdr, longest = set(), None, []
    for l in o.split('\n'):
        if l.startswith('<<"CRASHSTATE", '):
            st = json.loads(json.loads(l[len('<<"CRASHSTATE", '):-2]))
            for k in ('ws', 'cache', 'hist', 'fstab'):
                if isinstance(st[k], list): st[k] = {}
            model.add(canon(st))
        elif l.startswith('<<"SCENARIO", '): hdr = json.loads(l[len('<<"SCENARIO", '):-2])
        elif l.startswith('<<"PREFIX", '):
            tr = [e for e in json.loads(json.loads(l[len('<<"PREFIX", '):-2])) if e['a'] != 'pick']
            if len(tr) > len(longest): longest = tr
    if not model or hdr is None or not longest: raise ToolError('crash-state generator %s produced nothing: %s' % (cfg, o[-800:]))
    beh = '%s/beh_%s.ndjson' % (work, cfg); out = '%s/crashset_%s.ndjson' % (work, cfg)
    open(beh, 'w').write(hdr + '\n' + json.dumps(longest) + '\n')
    harness(['replay', '--in', beh, '--out', out, '--tag', cfg, '--serial-ref', '0', '--crash-last', '1'])
    impl, missing = set(), []
    for l in open(out):
        e = json.loads(l)
        if e['a'] == 'crash':
            if e['state'].get('other'): missing.append({'at': e['at'], 'reason': 'files the model does not know', 'other': e['state']['other']}); continue
            c = canon(e['state']); impl.add(c)
            if c not in model: missing.append({'at': e['at'], 'state': json.loads(c)})
    return {'cfg': cfg, 'model_crash_states': len(model), 'impl_crash_states': len(impl), 'not_in_model': missing[:5], 'n_not_in_model': len(missing)}

# ---------------------------------------------------------------- evidence
def write_evidence(pid, tier, seed, level, coverage, assumptions, wall, violations, extra=None):
    os.makedirs(ROOT + '/evidence', exist_ok=True)
    ev = {'property_id': pid, 'tier': tier, 'seed': seed, 'level': level, 'coverage': coverage, 'assumptions': assumptions,
          'wall_s': round(wall, 1), 'violations': violations}
    if extra: ev.update(extra)
    json.dump(ev, open('%s/evidence/%s.json' % (ROOT, pid), 'w'), indent=1)

def known_findings():
    p = ROOT + '/known_findings.json'
    return json.load(open(p)) if os.path.exists(p) else []
