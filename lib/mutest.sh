#!/bin/bash
# usage: mutest.sh <patch.diff> [-R] <prop> [<prop> ...]   -- apply a seeded change to /repo, run checks, always undo
patch=$1; shift
rev=""; if [ "$1" = "-R" ]; then rev="-R"; shift; fi
cd /repo && git diff --quiet || { echo "/repo has local changes"; exit 2; }
git -C /repo apply $rev "$patch" || { echo "patch does not apply"; exit 2; }
trap 'git -C /repo checkout -- . ; git -C /repo clean -qfd src' EXIT
for p in "$@"; do
  cd /verif && ./check $p > /tmp/mutest_$p.out 2>&1; rc=$?
  echo "== $p exit=$rc"; grep -h "VIOLATION\|DIVERGENCE\|TOOL-ERROR\|KNOWN" /tmp/mutest_$p.out | cut -c1-260 | sort | uniq -c | head -8
done
