#!/bin/bash
# usage: tlctrace.sh <cfg> <module.tla> <trace.ndjson>   (run from the spec directory)
cfg=$1; mod=$2; export TRACE=$3
md=$(mktemp -d /tmp/tlc/tv.XXXXXX)
JAVA_TOOL_OPTIONS="-Xss1g -Dtlc2.tool.queue.IStateQueue=StateDeque" tlc -workers 1 -metadir $md -cleanup -noGenerateSpecTE -config $cfg $mod 2>&1 | grep -v "^The field\|^named\|^In TLA\|^Therefore\|field in the record\|^$\|^Parsing\|^Semantic\|^Linting\|^line [0-9]\|^Picked up"
rm -rf $md
