"""Checks for the properties decided by oracle-style specifications (C12, C13, C14, C16): the harness runs the real
component on enumerated / random inputs and writes (input, output) records; TLC judges every record with the oracle."""
import json, os, re, time, hashlib
import verif as V

def judge(pid, module, rec_path):
    r = V.tlc_trace(module, module, rec_path)
    if r['accepted'] is None:
        raise V.ToolError('%s: record file not fully judged (stopped at %s)' % (module, r['rejected']))
    DIVERGED[:] = DIVERGED + [(what, rid) for (what, rid, ln) in r.get('diverged', [])]
    return [(inv, rid) for (inv, rid, ln) in r['violations']], r['accepted']

DIVERGED = []     # records on which the implementation differs from the model although the property holds (filled by judge)

def save_record(pid, rec_path, rid):
    os.makedirs(V.ROOT + '/evidence/replays', exist_ok=True)
    dest = '%s/evidence/replays/%s_%s.ndjson' % (V.ROOT, pid, re.sub(r'\W', '_', rid))
    for l in open(rec_path):
        if json.loads(l).get('id') == rid:
            open(dest, 'w').write(l); break
    return dest

def run_sat(pid, tier, seed, mcs, runs, module, nontrivial, assumptions, extra_core=None, real=False, inproc=True):
    t0 = time.time()
    thorough = tier == 'thorough'
    V.build_harness(real=real, inproc=inproc)
    work = V.WORK + '/' + pid
    os.makedirs(work, exist_ok=True)
    states = transitions = 0
    mc_results = []
    for (cfg, mod, expect_violation) in mcs(thorough):
        r = V.tlc_mc(cfg, mod, timeout=3000)
        if expect_violation:
            if not r['violated']: raise V.ToolError('self-test failed: TLC did not refute %s' % cfg)
            r['self_test'] = 'refuted as expected (%s)' % r['violated']
        elif r['violated']:
            raise V.ToolError('the model itself violates %s in %s' % (r['violated'], cfg))
        r.pop('tail', None); r.pop('outcomes', None)
        mc_results.append(r)
        if not expect_violation: states += r['distinct']; transitions += r['states']
    total = 0; viols = []; samples = []; nt = set(); info = []
    for k, args in enumerate(runs(thorough, seed)):
        path = '%s/rec_%d.ndjson' % (work, k)
        V.harness(args + ['--out', path])
        v, n = judge(pid, module, path)
        total += n
        for (inv, rid) in v: viols.append((inv, rid, save_record(pid, path, rid)))
        for l in open(path):
            rec = json.loads(l)
            if nontrivial(rec): nt.add(hashlib.md5(json.dumps({k2: v2 for k2, v2 in rec.items() if k2 != 'id'}, sort_keys=True).encode()).hexdigest())
            if len(samples) < 3 and nontrivial(rec): samples.append(rec)
        info.append({'args': args, 'records': n})
        if not v: os.remove(path)
    core_events = 0; core_divs = []
    if extra_core:
        # the same property end to end: invocations of the real build()/clean() validated against the core specification
        for k, (profile, qn, tn) in enumerate(extra_core):
            path = '%s/core_%s.ndjson' % (work, profile)
            V.harness(['random', '--n', str(tn if thorough else qn), '--seed', str(seed * 7919 + k), '--profile', profile, '--out', path])
            res, lines, scs = V.validate(path, label=pid + profile)
            core_events += res['events']; core_divs += res['divergences']
            for (inv, scn) in res['violations']:
                if inv.startswith(pid + '_'):
                    dest = '%s/evidence/replays/%s_%s.ndjson' % (V.ROOT, pid, re.sub(r'\W', '_', scn))
                    V.extract_scenario(lines, scs, scn, dest); viols.append((inv, scn, dest))
    known = [k for k in V.known_findings() if k.get('status') == 'known' and k.get('property') == pid]
    unknown = []
    for (inv, rid, dest) in viols:
        if any(k.get('record') == rid for k in known): print('KNOWN-FINDING: property=%s record %s' % (pid, rid))
        else: unknown.append((inv, rid, dest))
    for (what, rid) in DIVERGED[:20]: print('DIVERGENCE record=%s model=%s (the implementation no longer computes what the specification says; no property predicate fails on it)' % (rid, what))
    for d in core_divs: print('DIVERGENCE scenario=%s line=%d observed_property_failures=%s' % (d['scenario'], d['line'], d['observed_property_failures']))
    cov = {'states': max(states, 1), 'transitions': max(transitions, 1), 'traces_validated_against_impl': total,
           'samples': samples or [{'note': 'none'}], 'evaluations': total, 'distinct_nontrivial': len(nt),
           'rule': 'every record is one call of the real component on an enumerated or random input, judged by TLC with the oracle of %s.tla; distinct_nontrivial counts distinct records accepted by the rule given in the check (see DESIGN)' % module,
           'mc_configs': mc_results, 'record_sets': info, 'records_diverging_from_model': len(DIVERGED), 'core_events_validated': core_events, 'exhaustive': False}
    V.write_evidence(pid, tier, seed, 'model_checking', cov, assumptions, time.time() - t0, len(unknown))
    if total == 0: raise V.ToolError('vacuous run')
    for (inv, rid, dest) in unknown[:10]:
        print('VIOLATION property=%s replay=%s  (%s on %s)' % (pid, dest, inv, rid))
    return 1 if unknown else 0

def c12(tier, seed):
    return run_sat('C12', tier, seed,
        lambda th: [('MC_sort4', 'MC_sort4', False), ('Defect_sort_sibling', 'MC_sort4', True)],    # 5 rules would be 2^25 graphs x 6 goals: out of reach for TLC here
        lambda th, s: [['sort', '--n', '4' if th else '3', '--random', '20000' if th else '1500', '--seed', str(s)]],
        'SortTrace', lambda r: len(r['rules']) >= 2,
        ['rule lists as the parser delivers them (canonical order inside a rule)', 'SortImpl.tla transcribes single-target rules; multi-target rules and leaves are covered through the real code'],
        extra_core=[('core', 120, 1500)])

def c13(tier, seed):
    return run_sat('C13', tier, seed,
        lambda th: [('MC_identity', 'MC_identity', False)],
        lambda th, s: [['ident', '--random', '200000' if th else '8000', '--seed', str(s)]],
        'IdentTrace', lambda r: r['r1'] != r['r2'],
        ['parser-producible strings: non-empty, newline-free, not a lone colon', 'SHA-256 collisions excluded'])

def c14(tier, seed):
    return run_sat('C14', tier, seed,
        lambda th: [],
        lambda th, s: [['parse', '--n', '6' if th else '5', '--random', '20000' if th else '600', '--seed', str(s)]],
        'GrammarTrace', lambda r: len(r['lines']) >= 3,
        ['lines are lexed by the harness (leading tabs / rest) before the oracle reads them', 'a rule starting right after a closing colon is unspecified by the documentation: either outcome accepted'])

def c16(tier, seed):
    return run_sat('C16', tier, seed,
        lambda th: [('MC_chain_damage', 'MC_chain', False)],
        lambda th, s: [['persist', '--n', '120' if th else '8', '--seed', str(s)]],
        'PersistTrace', lambda r: r['how'] != 'whole',
        ['the bincode wire format itself is not modelled; state files are produced by ruler\'s own writer'],
        extra_core=[('core', 120, 1500)])

def c15(tier, seed):
    th = '1' if tier == 'thorough' else '0'
    return run_sat('C15', tier, seed,
        lambda t: [('MC_base62', 'MC_base62', False), ('MC_dirhash', 'MC_dirhash', False), ('Defect_dirhash_undelimited', 'MC_dirhash', True)],
        lambda t, s: [['ticket', '--thorough', th, '--seed', str(s)],
                      ['hash', '--thorough', th, '--seed', str(s), '--dir', V.WORK + '/realfs_C15', '--bin', V.REAL_BIN]],
        'TicketTrace', lambda r: r['kind'] != 'file' or len(r['bytes']) > 0,
        ['SHA-256 collisions excluded (two different directory trees must get different tickets)', 'an empty file and an empty directory of one name are not told apart (same names, same contents)',
         'JSON carries bytes as numbers and strings as code points plus their length in bytes; TLC computes SHA-256 (Sha256.tla) and the base-62 form (Base62.tla) itself'],
        real=True)

def c19(tier, seed):
    return run_sat('C19', tier, seed,
        lambda th: [],
        lambda th, s: [['serve', '--n', '40' if th else '4', '--seed', str(s), '--dir', V.WORK + '/realfs_C19', '--bin', V.REAL_BIN]],
        'ServerTrace', lambda r: r.get('kind') in ('files', 'rules'),
        ['ruler directories produced by the real binary with shell commands on the real file system', 'requests are legal HTTP/1.1 request lines (non-ASCII percent-encoded)',
         'the harness decides the class of each request (well-formed hash, cached, recorded) with its own base-62 / bincode decoders'], real=True, inproc=False)

def realfs_records(tier, seed):
    """C10 on the real file system: returns (n records, violations)"""
    thorough = tier == 'thorough'
    path = V.WORK + '/C10/rec_realfs.ndjson'
    os.makedirs(V.WORK + '/C10', exist_ok=True)
    V.harness(['realfs', '--n', '400' if thorough else '30', '--seed', str(seed), '--dir', V.WORK + '/realfs_C10r', '--bin', V.REAL_BIN, '--out', path])
    v, n = judge('C10', 'RealFsTrace', path)
    out = [(inv, rid, save_record('C10', path, rid)) for (inv, rid) in v]
    return n, out

CHECKS = {'C12': c12, 'C13': c13, 'C14': c14, 'C15': c15, 'C16': c16, 'C19': c19}
