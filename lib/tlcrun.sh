#!/bin/bash
# usage: tlcrun.sh <workers> <cfg> <module.tla> [extra tlc args]  -- quiet TLC wrapper
w=$1; cfg=$2; mod=$3; shift 3
md=$(mktemp -d /tmp/tlc/md.XXXXXX)
tlc -workers $w -metadir $md -cleanup -noGenerateSpecTE -config $cfg $mod "$@" 2>&1 | grep -v "^The field\|^named\|^In TLA\|^Therefore\|field in the record\|^$\|^Parsing\|^Semantic\|^Linting\|^line [0-9]"
rm -rf $md
