// Property C15 in process: the crate's TicketFactory / Ticket run on generated inputs over a small in-memory System whose
// files return short reads; every record (input, what the crate answered) is judged by TLC with Ticket.tla.
use std::collections::BTreeMap;
use std::io;
use std::sync::{Arc, Mutex};
use std::time::SystemTime;
use serde_json::{json, Value};
use crate::gen::Rng;
use crate::gen_ticket::{self, Node, chars_json};
use crate::system::{System, SystemError, CommandScript, CommandLineOutput};
use crate::ticket::{Ticket, TicketFactory};

#[derive(Clone)]
enum Ent { File(Arc<Vec<u8>>), Dir }

/* how much a read returns: a fixed limit, or the cycle 3, 7, everything (short reads in the middle of a file are legal for io::Read) */
#[derive(Clone, Copy, Debug)]
pub enum Reads { Full, AtMost(usize), Cycle, Interrupt(usize) }      /* Interrupt(k): the k-th read fails once with ErrorKind::Interrupted */

#[derive(Clone)]
pub struct TSys { ents : Arc<Mutex<BTreeMap<String, Ent>>>, reads : Reads, mtime : SystemTime }

#[derive(Debug)]
pub struct TFile { data : Arc<Vec<u8>>, pos : usize, reads : Reads, k : usize }
impl io::Read for TFile
{
    fn read(&mut self, buf : &mut [u8]) -> io::Result<usize>
    {
        let left = self.data.len() - self.pos;
        if let Reads::Interrupt(k) = self.reads { self.k += 1; if self.k == k { return Err(io::Error::new(io::ErrorKind::Interrupted, "interrupted")); } }
        let want = match self.reads { Reads::Full | Reads::Interrupt(_) => buf.len(), Reads::AtMost(n) => n.min(buf.len()), Reads::Cycle => { self.k += 1; match self.k % 3 { 1 => 3.min(buf.len()), 2 => 7.min(buf.len()), _ => buf.len() } } };
        let n = want.min(left);
        buf[..n].copy_from_slice(&self.data[self.pos..self.pos + n]);
        self.pos += n;
        Ok(n)
    }
}
impl io::Write for TFile
{
    fn write(&mut self, _buf : &[u8]) -> io::Result<usize> { Err(io::Error::new(io::ErrorKind::Other, "read only")) }
    fn flush(&mut self) -> io::Result<()> { Ok(()) }
}

impl TSys
{
    pub fn new(reads : Reads) -> TSys { TSys{ents : Arc::new(Mutex::new(BTreeMap::new())), reads, mtime : SystemTime::UNIX_EPOCH + std::time::Duration::from_secs(1_600_000_000)} }
    pub fn dated(mut self, t : SystemTime) -> TSys { self.mtime = t; self }
    pub fn put_file(&self, path : &str, data : Vec<u8>) { self.ents.lock().unwrap().insert(path.to_string(), Ent::File(Arc::new(data))); }
    pub fn put_dir(&self, path : &str) { self.ents.lock().unwrap().insert(path.to_string(), Ent::Dir); }
    pub fn put_tree(&self, path : &str, t : &Vec<Node>)
    {
        self.put_dir(path);
        for x in t
        {
            match x
            {
                Node::File(n, b) => self.put_file(&format!("{}/{}", path, n), b.clone()),
                Node::Dir(n, c) => self.put_tree(&format!("{}/{}", path, n), c),
            }
        }
    }
}

impl System for TSys
{
    type File = TFile;
    fn open(&self, path : &str) -> Result<TFile, SystemError>
    {
        match self.ents.lock().unwrap().get(path) { Some(Ent::File(d)) => Ok(TFile{data : d.clone(), pos : 0, reads : self.reads, k : 0}), Some(Ent::Dir) => Err(SystemError::DirectoryInPlaceOfFile(path.to_string())), None => Err(SystemError::NotFound) }
    }
    fn create_file(&mut self, _path : &str) -> Result<TFile, SystemError> { Err(SystemError::NotImplemented) }
    fn create_dir(&mut self, _path : &str) -> Result<(), SystemError> { Err(SystemError::NotImplemented) }
    fn is_dir(&self, path : &str) -> bool { matches!(self.ents.lock().unwrap().get(path), Some(Ent::Dir)) }
    fn is_file(&self, path : &str) -> bool { matches!(self.ents.lock().unwrap().get(path), Some(Ent::File(_))) }
    fn list_dir(&self, path : &str) -> Result<Vec<String>, SystemError>
    {
        let ents = self.ents.lock().unwrap();
        match ents.get(path) { Some(Ent::Dir) => {}, Some(_) => return Err(SystemError::ExpectedDirFoundFile), None => return Err(SystemError::NotFound) }
        let prefix = format!("{}/", path);
        let mut v : Vec<String> = ents.keys().filter(|k| k.starts_with(&prefix) && !k[prefix.len()..].contains('/')).cloned().collect();
        v.sort();
        Ok(v)
    }
    fn rename(&mut self, _from : &str, _to : &str) -> Result<(), SystemError> { Err(SystemError::NotImplemented) }
    fn get_modified(&self, _path : &str) -> Result<SystemTime, SystemError> { Ok(self.mtime) }
    fn is_executable(&self, _path : &str) -> Result<bool, SystemError> { Ok(false) }
    fn set_is_executable(&mut self, _path : &str, _executable : bool) -> Result<(), SystemError> { Err(SystemError::NotImplemented) }
    fn execute_command(&mut self, _command_script : CommandScript) -> Vec<Result<CommandLineOutput, SystemError>> { vec![] }
}

fn guarded<T, F : FnOnce() -> T + std::panic::UnwindSafe>(f : F) -> Option<T> { std::panic::catch_unwind(f).ok() }

fn hash_path(sys : &TSys, path : &str) -> Value
{
    let s = sys.clone(); let p = path.to_string();
    match guarded(move || TicketFactory::from_path(&s, &p).map(|mut f| f.result().human_readable()))
    {
        Some(Ok(text)) => json!({"ok" : true, "out" : chars_json(&text)}),
        Some(Err(e)) => json!({"ok" : false, "out" : [], "err" : format!("{}", e)}),
        None => json!({"ok" : false, "out" : [], "err" : "panic"}),
    }
}

/* the hash ruler assigns to a file during a build: blob::get_file_ticket with what it remembers about the file (the modification-time shortcut) */
fn assigned_ticket(sys : &TSys, path : &str, remembered : crate::blob::FileState) -> Value
{
    let s = sys.clone(); let p = path.to_string();
    match guarded(move || crate::blob::get_file_ticket(&s, &p, &remembered))
    {
        Some(Ok(Some(t))) => json!({"ok" : true, "out" : chars_json(&t.human_readable())}),
        Some(Ok(None)) => json!({"ok" : false, "out" : [], "err" : "no file"}),
        Some(Err(e)) => json!({"ok" : false, "out" : [], "err" : format!("{}", e)}),
        None => json!({"ok" : false, "out" : [], "err" : "panic"}),
    }
}

const POLICIES : [Reads; 9] = [Reads::Full, Reads::AtMost(1), Reads::AtMost(7), Reads::AtMost(255), Reads::AtMost(256), Reads::AtMost(257), Reads::AtMost(300), Reads::Cycle, Reads::AtMost(64)];
const PATHS : [&str; 4] = ["f", "some/deeper/path.bin", "zzzzzzzzzzzzzzzzzzzzzzzzzzzzzzzzzzzzzzzzzzzzzzzzzzzzzzzzzzzzzzzzzzzzzzzzzzzz", "é x"];

pub fn ticket_cases(thorough : bool, seed : u64) -> Vec<Value>
{
    let mut rng = Rng::new(seed);
    let mut recs : Vec<Value> = vec![];
    /* files: every length of the quantifier, each under two or three read policies and at different paths */
    for (k, n) in gen_ticket::lengths(thorough, &mut rng).into_iter().enumerate()
    {
        let bytes = gen_ticket::content(&mut rng, n, if n > 1100 { 0 } else { k });
        let mut outs : Vec<Value> = vec![];
        let npol = if n > 5000 { 2 } else { 3 };
        for j in 0..npol
        {
            let pol = if n > 5000 { [Reads::Full, Reads::AtMost(300)][j] } else { POLICIES[(k + j * 4) % POLICIES.len()] };
            let sys = TSys::new(pol);
            let path = PATHS[(k + j) % PATHS.len()];
            sys.put_file(path, bytes.clone());
            let mut o = hash_path(&sys, path);
            o["via"] = json!(format!("{:?} at {}", pol, path)); o["fault"] = json!(false);
            outs.push(o);
        }
        if n <= 1100 && k % 3 == 0
        {   /* the same file as ruler sees it during a build, with nothing remembered about it: dated 1970-01-01T00:00:00Z, one day
               earlier, one second later, and now; and with a remembered state of another age */
            let epoch = SystemTime::UNIX_EPOCH;
            for (what, t) in [("dated 1970-01-01", epoch), ("dated 1969-12-31", epoch - std::time::Duration::from_secs(86400)), ("dated one second after 1970", epoch + std::time::Duration::from_secs(1)), ("dated 2020", epoch + std::time::Duration::from_secs(1_600_000_000))]
            {
                let sys = TSys::new(Reads::Full).dated(t); sys.put_file("f", bytes.clone());
                let mut o = assigned_ticket(&sys, "f", crate::blob::FileState::empty());
                o["via"] = json!(format!("get_file_ticket, nothing remembered, file {}", what)); o["fault"] = json!(false);
                outs.push(o);
            }
        }
        if n >= 1 && k % 5 == 0
        {   /* a read that fails once with EINTR: an error is fine, a retry is fine, another hash is not */
            for kth in [1usize, 2, 1 + (n + 255) / 256]
            {
                let sys = TSys::new(Reads::Interrupt(kth)); sys.put_file("f", bytes.clone());
                let mut o = hash_path(&sys, "f");
                o["via"] = json!(format!("read number {} interrupted once", kth)); o["fault"] = json!(true);
                outs.push(o);
            }
        }
        recs.push(json!({"id" : format!("file.{}.{}", n, k), "kind" : "file", "bytes" : bytes, "outs" : outs}));
    }
    /* a factory fed in pieces: strings, byte slices and tickets */
    for k in 0..(if thorough { 400 } else { 60 })
    {
        let total = rng.below(if k % 10 == 0 { 3000 } else { 400 });
        let bytes = gen_ticket::content(&mut rng, total, 4);           /* text, so that input_str can take it */
        let mut chunks : Vec<Vec<u8>> = vec![];
        let mut pos = 0;
        let first_str = rng.chance(1, 2);
        let mut factory = if first_str { let c = rng.below(total + 1).min(70); chunks.push(bytes[..c].to_vec()); pos = c; TicketFactory::from_str(std::str::from_utf8(&bytes[..c]).unwrap()) } else { TicketFactory::new() };
        while pos < total
        {
            let cap = if rng.chance(1, 3) { 300 } else { 70 };
            let c = 1 + rng.below((total - pos).min(cap));
            if rng.chance(1, 2) { factory.input_bytes(&bytes[pos..pos + c]); } else { factory.input_str(std::str::from_utf8(&bytes[pos..pos + c]).unwrap()); }
            chunks.push(bytes[pos..pos + c].to_vec());
            if rng.chance(1, 8) { factory.input_bytes(&[]); chunks.push(vec![]); }
            pos += c;
        }
        if rng.chance(1, 3)
        {   /* a ticket as input: its 32 bytes */
            let mut v = [0u8; 32]; for b in v.iter_mut() { *b = rng.next() as u8; }
            let t : Ticket = bincode::deserialize(&v).unwrap();
            factory.input_ticket(t);
            chunks.push(v.to_vec());
        }
        recs.push(json!({"id" : format!("chunks.{}", k), "kind" : "chunks", "chunks" : chunks, "out" : chars_json(&factory.result().human_readable())}));
    }
    /* text form of 256-bit values and back */
    for (k, v) in gen_ticket::values(thorough, &mut rng).into_iter().enumerate()
    {
        let t : Ticket = bincode::deserialize(&v).unwrap();
        let text = match guarded(move || t.human_readable()) { Some(s) => s, None => "<panic>".to_string() };
        let text2 = text.clone();
        let back : Vec<u8> = match guarded(move || Ticket::from_human_readable(&text2)) { Some(Ok(t2)) => bincode::serialize(&t2).unwrap(), _ => vec![] };
        recs.push(json!({"id" : format!("enc.{}", k), "kind" : "enc", "sha" : v.to_vec(), "out" : chars_json(&text), "back" : back}));
    }
    /* candidate text forms */
    for (k, (s, note)) in gen_ticket::strings(thorough, &mut rng).into_iter().enumerate()
    {
        let s2 = s.clone();
        let (ok, sha, err) = match guarded(move || Ticket::from_human_readable(&s2))
        {
            Some(Ok(t)) => (true, bincode::serialize(&t).unwrap(), "".to_string()),
            Some(Err(e)) => (false, vec![], format!("{:?}", e)),
            None => (true, vec![], "panic".to_string()),          /* a panic is not a rejection: ok with no value fails the oracle either way */
        };
        recs.push(json!({"id" : format!("dec.{}", k), "kind" : "dec", "chars" : chars_json(&s), "blen" : s.len(), "note" : note, "ok" : ok, "sha" : sha, "err" : err}));
    }
    /* pairs of directory trees at one path */
    for (k, (t1, t2, what)) in gen_ticket::tree_pairs(if thorough { 3000 } else { 250 }, &mut rng).into_iter().enumerate()
    {
        let root = ["d", "some/dir", "é"][k % 3];
        let s1 = TSys::new(POLICIES[k % POLICIES.len()]); s1.put_tree(root, &t1);
        let s2 = TSys::new(Reads::Full); s2.put_tree(root, &t2);
        let (o1, o2) = (hash_path(&s1, root), hash_path(&s2, root));
        recs.push(json!({"id" : format!("dir.{}", k), "kind" : "dirpair", "odd" : false, "root" : root.as_bytes(), "what" : what, "t1" : gen_ticket::tree_json(&t1), "t2" : gen_ticket::tree_json(&t2),
                         "ok1" : o1["ok"], "h1" : o1["out"], "ok2" : o2["ok"], "h2" : o2["out"]}));
    }
    recs
}
