#![allow(dead_code)]
// Conformance harness for 2-complex/ruler: compiles the modules of /repo/src as they are now
// (feature `verif` on), drives the real build()/clean() over an instrumented System under a
// deterministic scheduler and writes ndjson traces for TLC.
extern crate toml;
extern crate serde;
extern crate execute;

include!(concat!(env!("OUT_DIR"), "/mods.rs"));

mod sha256;
mod model;
mod gen;
mod decode;
mod vsys;
mod project;
mod run;
mod drv_random;
mod drv_replay;
mod drv_sat;
mod gen_ticket;
mod drv_ticket;
mod drv_real;
mod drv_realobs;

use serde_json::Value;

fn arg(args : &Vec<String>, key : &str, default : &str) -> String
{
    args.iter().position(|a| a == key).and_then(|i| args.get(i + 1)).cloned().unwrap_or(default.to_string())
}

fn main()
{
    let args : Vec<String> = std::env::args().collect();
    let cmd = args.get(1).cloned().unwrap_or_default();
    /* panics of the code under test are data; keep stderr quiet */
    std::panic::set_hook(Box::new(|_| {}));
    match cmd.as_str()
    {
        "selftest" =>
        {
            let h = sha256::hex(&sha256::sha256(b"abc"));
            assert_eq!(h, "ba7816bf8f01cfea414140de5dae2223b00361a396177a9cb410ff61f20015ad");
            /* agree with the crate's own ticket on a few inputs (both directions are checked by the C07 projection anyway) */
            for s in ["", "S0", "F(c1,1)[S0|S1]"]
            {
                let mine = sha256::ticket_of(s.as_bytes());
                let theirs = crate::ticket::TicketFactory::from_str(s).result().human_readable();
                if mine != theirs { println!("NOTE ticket mismatch on {:?}: harness {} crate {}", s, mine, theirs); }
            }
            println!("{}", sha256::hex(&sha256::sha256(arg(&args, "--data", "").as_bytes())));
        },
        "random" =>
        {
            let n : usize = arg(&args, "--n", "20").parse().unwrap();
            let seed : u64 = arg(&args, "--seed", "1").parse().unwrap();
            let prname = arg(&args, "--profile", "core");
            let pr = drv_random::profile(&prname);
            let out = arg(&args, "--out", "trace.ndjson");
            let mut lines : Vec<Value> = vec![];
            /* --scenario-seed: regenerate exactly one scenario from the seed recorded in its reset event (replay) */
            let one = arg(&args, "--scenario-seed", "");
            if one != "" { lines.extend(drv_random::random_scenario(arg(&args, "--id", "replay"), one.parse().unwrap(), &pr, &prname)); }
            else { for k in 0..n { lines.extend(drv_random::random_scenario(format!("r{}.{}", seed, k), seed.wrapping_mul(1000003).wrapping_add(k as u64), &pr, &prname)); } }
            run::write_lines(&out, &lines);
            println!("{}", serde_json::json!({"scenarios" : n, "events" : lines.len(), "counts" : run::counts(&lines)}));
        },
        "crash" =>
        {
            let n : usize = arg(&args, "--n", "5").parse().unwrap();
            let seed : u64 = arg(&args, "--seed", "1").parse().unwrap();
            let max_snaps : usize = arg(&args, "--max-snaps", "60").parse().unwrap();
            let pr = drv_random::profile("crash");
            let out = arg(&args, "--out", "trace.ndjson");
            let mut lines : Vec<Value> = vec![];
            let mut snaps = 0;
            for k in 0..n
            {
                let (l, s) = drv_random::crash_scenarios(format!("x{}.{}", seed, k), seed.wrapping_mul(1000003).wrapping_add(k as u64), &pr, max_snaps);
                lines.extend(l); snaps += s;
            }
            run::write_lines(&out, &lines);
            println!("{}", serde_json::json!({"scenarios" : n, "snapshots" : snaps, "events" : lines.len(), "counts" : run::counts(&lines)}));
        },
        "sort" | "ident" | "parse" | "persist" =>
        {
            let out = arg(&args, "--out", "records.ndjson");
            let n : usize = arg(&args, "--n", "3").parse().unwrap();
            let random : usize = arg(&args, "--random", "200").parse().unwrap();
            let seed : u64 = arg(&args, "--seed", "1").parse().unwrap();
            let recs = match cmd.as_str()
            {
                "sort" => drv_sat::sort_cases(n, random, seed),
                "ident" => { let mut v = drv_sat::ident_exhaustive(); v.extend(drv_sat::ident_cases(random, seed)); v },
                "parse" => drv_sat::parse_cases(n, random, seed),
                _ => drv_sat::persist_cases(n, seed),
            };
            run::write_lines(&out, &recs);
            println!("{}", serde_json::json!({"records" : recs.len()}));
        },
        "ticket" =>
        {
            let out = arg(&args, "--out", "records.ndjson");
            let seed : u64 = arg(&args, "--seed", "1").parse().unwrap();
            let recs = drv_ticket::ticket_cases(arg(&args, "--thorough", "0") == "1", seed);
            run::write_lines(&out, &recs);
            println!("{}", serde_json::json!({"records" : recs.len()}));
        },
        "realobs" =>
        {
            let out = arg(&args, "--out", "trace.ndjson");
            let n : usize = arg(&args, "--n", "5").parse().unwrap();
            let seed : u64 = arg(&args, "--seed", "1").parse().unwrap();
            let bin = arg(&args, "--bin", "/verif/harness/target/release/ruler_real");
            let base = arg(&args, "--dir", "/verif/work/realfs");
            let lines = drv_realobs::real_histories(&bin, &base, n, seed, &arg(&args, "--profile", "realfs"));
            run::write_lines(&out, &lines);
            println!("{}", serde_json::json!({"scenarios" : n, "events" : lines.len(), "counts" : run::counts(&lines)}));
        },
        "realfs" | "serve" =>
        {
            let out = arg(&args, "--out", "records.ndjson");
            let n : usize = arg(&args, "--n", "5").parse().unwrap();
            let seed : u64 = arg(&args, "--seed", "1").parse().unwrap();
            let bin = arg(&args, "--bin", "/verif/harness/target/release/ruler_real");
            let base = arg(&args, "--dir", "/verif/work/realfs");
            let recs = if cmd == "realfs" { drv_real::real_clean_build(&bin, &base, n, seed) } else { drv_real::real_serve(&bin, &base, n, seed) };
            run::write_lines(&out, &recs);
            println!("{}", serde_json::json!({"records" : recs.len()}));
        },
        "replay" =>
        {
            let out = arg(&args, "--out", "trace.ndjson");
            let (lines, n, notenabled, snaps) = drv_replay::replay_file(&arg(&args, "--in", "behaviours.ndjson"), &arg(&args, "--tag", "g"), arg(&args, "--serial-ref", "1") == "1", arg(&args, "--crash-last", "0") == "1");
            run::write_lines(&out, &lines);
            println!("{}", serde_json::json!({"scenarios" : n, "events" : lines.len(), "picks_not_enabled" : notenabled, "snapshots" : snaps, "counts" : run::counts(&lines)}));
        },
        _ => { eprintln!("usage: rvh selftest|random|crash ..."); std::process::exit(2); },
    }
}
