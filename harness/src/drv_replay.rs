// Replay of TLC-generated behaviours: user-level actions are applied, and inside an invocation the
// controller grants the token to the thread the model moved; when the script of an invocation is
// exhausted the invocation is completed under the serial schedule.
use std::collections::VecDeque;
use serde_json::{json, Value};
use crate::model::XRule;
use crate::run::{Scn, Sched};

pub fn replay_file(path : &str, tag : &str, serial_ref : bool, crash_last : bool) -> (Vec<Value>, usize, usize, usize)
{
    let text = std::fs::read_to_string(path).expect("read behaviours");
    let mut lines = text.lines();
    let head : Value = serde_json::from_str(lines.next().expect("scenario header")).expect("header json");
    let ord : Vec<String> = head["ord"].as_array().unwrap().iter().map(|s| s.as_str().unwrap().to_string()).collect();
    let menu : Vec<Vec<XRule>> = head["menu"].as_array().unwrap().iter().map(|rs| rs.as_array().unwrap().iter().map(XRule::from_json).collect()).collect();
    let init : Vec<(String, String)> = head["init"].as_array().unwrap().iter().map(|p| (p[0].as_str().unwrap().to_string(), p[1].as_str().unwrap().to_string())).collect();
    let tick = head["clock"].as_str() == Some("tick");
    let twin = head["twin"].as_bool().unwrap_or(false);
    let mut out = vec![];
    let mut n = 0; let mut notenabled = 0; let mut nsnaps = 0;
    for line in lines
    {
        if line.trim() == "" { continue; }
        let tr : Vec<Value> = serde_json::from_str(line).expect("behaviour json");
        n += 1;
        let mut scn = Scn::new(&format!("{}.{}", tag, n), ord.clone(), tick, twin, json!({"replay" : tag}));
        scn.check_serial = serial_ref;
        scn.set_rules(&menu[0]);
        for (p, c) in &init { scn.edit(p, c); }
        let mut k = 0;
        let mut crashed : Vec<Value> = vec![];
        while k < tr.len()
        {
            let e = &tr[k];
            k += 1;
            match e["a"].as_str().unwrap_or("")
            {
                "rules" => { let rs : Vec<XRule> = e["rules"].as_array().unwrap().iter().map(XRule::from_json).collect(); scn.set_rules(&rs); },
                "edit" => scn.edit(e["p"].as_str().unwrap(), e["c"].as_str().unwrap()),
                "del" => { scn.del(e["p"].as_str().unwrap()); },
                "delcache" => { scn.delcache(e["n"].as_str().unwrap()); },
                "delruler" => { scn.delruler(e["what"].as_str().unwrap()); },
                "env" => scn.set_env(e["v"].as_str().unwrap()),
                "rmdir" => { scn.rmdir(e["d"].as_str().unwrap()); },
                "mkdir" => { scn.mkdir(e["d"].as_str().unwrap()); },
                "mv" => { scn.mv(e["p"].as_str().unwrap(), e["q"].as_str().unwrap()); },
                "corrupt" => { scn.corrupt(e["what"].as_str().unwrap(), e["rid"].as_str().unwrap_or("")); },
                a @ ("build" | "clean") =>
                {
                    let mut picks = VecDeque::new();
                    while k < tr.len() && tr[k]["a"].as_str() == Some("pick") { picks.push_back(tr[k]["t"].as_str().unwrap().to_string()); k += 1; }
                    if crash_last && k >= tr.len()
                    {
                        /* the last invocation of the behaviour is the one that gets killed, at every mutation */
                        let id = format!("{}.{}", tag, n);
                        let (sub, s) = crate::drv_random::crash_last(&mut scn, &id, a == "build", e["g"].as_str().unwrap_or(""), Sched::Scripted(picks), 40, json!({"replay" : tag}));
                        crashed.extend(sub); nsnaps += s;
                    }
                    else
                    {
                        let (o, _) = scn.invoke(a == "build", e["g"].as_str().unwrap_or(""), Sched::Scripted(picks), false);
                        notenabled += o.flags.notenabled;
                    }
                },
                _ => {},
            }
        }
        if crash_last { out.extend(crashed); } else { out.extend(scn.out); }
    }
    (out, n, notenabled, nsnaps)
}
