// Random histories on random rule graphs, and the crash explorer built on the same generator.
use serde_json::{json, Value};
use crate::model::XRule;
use crate::run::{Scn, Rng, Sched, ord_of, DIR};

pub use crate::gen::{Profile, profile, gen_rules};

fn random_goal(rng : &mut Rng, targets : &Vec<String>) -> String
{
    match rng.below(20) { 0..=9 => "".to_string(), 10 => "nosuch".to_string(), _ => targets[rng.below(targets.len())].clone() }
}

fn sched_for(rng : &mut Rng, serial : bool) -> Sched { if serial { Sched::Serial } else { Sched::Random(Rng::new(rng.next())) } }

/*  one random user-level action (not an invocation); returns false if nothing was done */
fn user_action(rng : &mut Rng, pr : &Profile, scn : &mut Scn, rules : &mut Vec<XRule>, leaves : &Vec<String>, targets : &Vec<String>) -> bool
{
    match rng.below(17)
    {
        14 =>
        {   /* an older file lands on a target path with its old stamp */
            let t = &targets[rng.below(targets.len())];
            scn.mv("zz", t)
        },
        15 =>
        {
            if !pr.damage || !rng.chance(1, 2) { return false; }
            if rng.chance(1, 3) { scn.corrupt("table", "") }
            else { let h = scn.history_rids(); if h.len() == 0 { return false; } let r = h[rng.below(h.len())].clone(); scn.corrupt("hist", &r) }
        },
        16 =>
        {   /* make the graph invalid: a rule gets a target of another (possibly dependent) rule as source, or steals a target */
            if !pr.damage || !rng.chance(1, 2) { return false; }
            let k = rng.below(rules.len());
            let j = rng.below(rules.len());
            let t = rules[j].tg[rng.below(rules[j].tg.len())].clone();
            if rng.chance(1, 5) { if rules[k].tg.contains(&t) { return false; } rules[k].tg.push(t); rules[k].tg.sort(); }
            else { if rules[k].src.contains(&t) { return false; } rules[k].src.push(t); rules[k].src.sort(); }
            scn.set_rules(rules);
            true
        },
        0..=3 => { let l = &leaves[rng.below(leaves.len())]; let c = format!("S{}", rng.below(3)); if scn.sys.get(l) == Some(c.clone()) { return false; } scn.edit(l, &c); true },
        4 => { let t = &targets[rng.below(targets.len())]; let c = format!("J{}", rng.below(3)); if scn.sys.get(t) == Some(c.clone()) { return false; } scn.edit(t, &c); true },
        5 => { let t = &targets[rng.below(targets.len())]; scn.del(t) },
        6 => { let c = scn.cache_entries(); if c.len() == 0 { return false; } let l = c[rng.below(c.len())].1.clone(); scn.delcache(&l) },
        7 | 8 =>
        {
            let k = rng.below(rules.len());
            match rng.below(7)
            {
                6 =>
                {   /* a rule gains or loses a target */
                    if rules[k].tg.len() > 1 && rng.chance(1, 2) { let i = rng.below(rules[k].tg.len()); rules[k].tg.remove(i); rules[k].omit = 0; rules[k].mask.clear(); }
                    else { let t = format!("n{}x{}", k, rng.below(2)); if rules[k].tg.contains(&t) || !scn.ord.contains(&t) { return false; } rules[k].tg.push(t); rules[k].tg.sort(); }
                },
                0 => { rules[k].id = format!("c{}v{}", k, rng.below(3)); },
                1 => { if !pr.fail { return false; } rules[k].kind = if rules[k].kind == "fail" || rules[k].kind == "kill" { "fn".to_string() } else if rng.chance(1, 3) { "kill".to_string() } else { "fail".to_string() }; },
                2 => { rules[k].layout = 1 - rules[k].layout; },
                3 => { if rng.chance(1, 2) { rules[k].rev = !rules[k].rev; } else { rules[k].flat = !rules[k].flat; } },
                4 if rng.chance(1, 2) =>
                {   /* drop a source that is another rule's target (undoes most cycles) or a duplicated target */
                    let before = (rules[k].src.clone(), rules[k].tg.clone());
                    if rules[k].src.len() > 1 { let tset : Vec<String> = targets.clone(); if let Some(pos) = rules[k].src.iter().position(|s| tset.contains(s)) { rules[k].src.remove(pos); } }
                    if before == (rules[k].src.clone(), rules[k].tg.clone()) { return false; }
                },
                4 =>
                {   /* add or remove a leaf source */
                    let l = leaves[rng.below(leaves.len())].clone();
                    if rules[k].src.contains(&l) { if rules[k].src.len() < 2 { return false; } rules[k].src.retain(|s| *s != l); }
                    else { rules[k].src.push(l); rules[k].src.sort(); }
                },
                _ => { if !pr.fail { return false; } rules[k].pf = !rules[k].pf; rules[k].pk = rules[k].pf && rng.chance(1, 2); },
            }
            scn.set_rules(rules);
            true
        },
        9 => { if !pr.fail || !rng.chance(1, 2) { return false; } let l = &leaves[rng.below(leaves.len())]; scn.del(l) },
        10 => { if !pr.wreck || !rng.chance(1, 2) { return false; } let w = ["all", "cache", "history", "table"][rng.below(4)]; scn.delruler(w) },
        11 => { if !pr.env { return false; } let v = format!("e{}", rng.below(2)); if scn.sys.fs.lock().unwrap().env == v { return false; } scn.set_env(&v); true },
        12 => { let c = format!("B{}", rng.below(2)); if scn.sys.get("zz") == Some(c.clone()) { return false; } scn.edit("zz", &c); true },
        13 =>
        {   /* the user removes a workspace directory with everything in it, or makes it again */
            let dirs = scn.top_dirs();
            if dirs.len() == 0 { return false; }
            let d = dirs[rng.below(dirs.len())].clone();
            if scn.removed.contains(&d) { scn.mkdir(&d) } else if rng.chance(1, 2) { scn.rmdir(&d) } else { false }
        },
        _ => false,
    }
}

pub fn random_scenario(id : String, seed : u64, pr : &Profile, prname : &str) -> Vec<Value>
{
    let mut rng = Rng::new(seed);
    let (mut rules, leaves) = gen_rules(&mut rng, pr);
    let targets : Vec<String> = rules.iter().flat_map(|r| r.tg.clone()).collect();
    let mut extra : Vec<&str> = leaves.iter().map(|s| s.as_str()).collect(); extra.push("zz");
    let added : Vec<String> = (0..rules.len()).flat_map(|k| vec![format!("n{}x0", k), format!("n{}x1", k)]).collect();
    for a in added.iter() { extra.push(a.as_str()); }
    let ord = ord_of(&vec![rules.clone()], &extra);
    let mut scn = Scn::new(&id, ord, pr.tick, pr.twin, json!({"seed" : seed, "profile" : prname}));
    let serial = rng.chance(1, 3);
    scn.check_serial = pr.serial_ref && !serial;
    scn.set_rules(&rules);
    for l in &leaves { scn.edit(l, "S0"); }
    if rng.chance(1, 2) { scn.edit("zz", "B0"); }
    let nsteps = 4 + rng.below(pr.max_steps);
    for _ in 0..nsteps
    {
        match rng.below(10)
        {
            0..=3 => { let g = random_goal(&mut rng, &targets); let s = sched_for(&mut rng, serial); scn.invoke(true, &g, s, false); },
            4 | 5 => { let g = random_goal(&mut rng, &targets); let s = sched_for(&mut rng, serial); scn.invoke(false, &g, s, false); },
            _ => { user_action(&mut rng, pr, &mut scn, &mut rules, &leaves, &targets); },
        }
    }
    /* always end with a build so that the last user actions have consequences */
    let s = sched_for(&mut rng, serial);
    scn.invoke(true, "", s, false);
    scn.out
}

/*  Crash explorer: a random prefix history, then one invocation recorded with a snapshot after every
    mutating System call (and one torn prefix per write); from every snapshot a recovery build is run.
    Each (snapshot, recovery) pair is its own trace scenario: load pre-state, start, crash, build ... ret. */
/*  runs one invocation of `scn` with a snapshot after every mutating System call (and one torn prefix per write);
    every snapshot becomes its own trace scenario: load pre-state, start, crash (snapshot state), recovery build */
pub fn crash_last(scn : &mut Scn, id : &str, is_build : bool, goal : &str, sched : Sched, max_snaps : usize, meta : Value) -> (Vec<Value>, usize)
{
    let pre_state = scn.state();
    let env = scn.sys.fs.lock().unwrap().env.clone();
    let ord = scn.ord.clone();
    let (_o, snaps) = scn.invoke(is_build, goal, sched, true);
    let mut out : Vec<Value> = vec![];
    let mut n = 0;
    let step = if snaps.len() > max_snaps { (snaps.len() + max_snaps - 1) / max_snaps } else { 1 };
    for (k, snap) in snaps.iter().enumerate()
    {
        if k % step != 0 && k + 1 != snaps.len() { continue; }
        n += 1;
        let mut m = meta.clone(); m["crashpoint"] = json!(snap.label);
        let mut sub = Scn::new(&format!("{}.k{}", id, k), ord.clone(), false, false, m);
        sub.sys = scn.sys.from_snap(snap);
        sub.names.rids = scn.names.rids.clone(); sub.names.shs = scn.names.shs.clone();
        sub.rules = scn.rules.clone();
        sub.sys.set_rules(&sub.rules);
        sub.out.push(json!({"a" : "rules", "rules" : crate::model::rules_json(&sub.rules)}));
        sub.out.push(json!({"a" : "env", "v" : env}));
        sub.out.push(json!({"a" : "load", "state" : pre_state}));
        sub.out.push(json!({"a" : if is_build { "build" } else { "clean" }, "g" : goal}));
        let st = sub.state();
        sub.out.push(json!({"a" : "crash", "k" : k, "at" : snap.label, "inexec" : snap.inexec,
            "taken" : snap.takes.iter().map(|(p, n)| json!([p, n])).collect::<Vec<_>>(), "state" : st}));
        sub.invoke(true, "", Sched::Serial, false);
        out.extend(sub.out);
    }
    (out, n)
}

pub fn crash_scenarios(id : String, seed : u64, pr : &Profile, max_snaps : usize) -> (Vec<Value>, usize)
{
    let mut rng = Rng::new(seed);
    let (mut rules, leaves) = gen_rules(&mut rng, pr);
    let targets : Vec<String> = rules.iter().flat_map(|r| r.tg.clone()).collect();
    let mut extra : Vec<&str> = leaves.iter().map(|s| s.as_str()).collect(); extra.push("zz");
    let ord = ord_of(&vec![rules.clone()], &extra);
    let mut scn = Scn::new(&id, ord.clone(), false, false, json!({"seed" : seed}));
    scn.set_rules(&rules);
    for l in &leaves { scn.edit(l, "S0"); }
    let nsteps = rng.below(pr.max_steps);
    for _ in 0..nsteps
    {
        match rng.below(10)
        {
            0..=3 => { let g = random_goal(&mut rng, &targets); scn.invoke(true, &g, Sched::Serial, false); },
            4 => { let g = random_goal(&mut rng, &targets); scn.invoke(false, &g, Sched::Serial, false); },
            _ => { user_action(&mut rng, pr, &mut scn, &mut rules, &leaves, &targets); },
        }
    }
    /* the interrupted invocation */
    let is_build = rng.chance(3, 4);
    let goal = if rng.chance(2, 3) { "".to_string() } else { targets[rng.below(targets.len())].clone() };
    let serial = rng.chance(1, 2);
    let s = sched_for(&mut rng, serial);
    let (out, n) = crash_last(&mut scn, &id, is_build, &goal, s, max_snaps, json!({"seed" : seed}));
    let _ = DIR;
    (out, n)
}
