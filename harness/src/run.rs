// One scenario = one virtual disk + a sequence of user-level actions and invocations of the real
// build() / clean() under a scheduling controller.  Everything observable is appended to the event list.
use std::collections::{BTreeSet, VecDeque};
use std::sync::{Arc, Mutex};
use serde_json::{json, Value};

use crate::vsys::{VSystem, Snap};
use crate::model::{XRule, render, rules_json, sort_rules};
use crate::project::{project, Names, rule_ticket};
use crate::verif_shim::{self as shim, Op, Controller};
use crate::printer::Printer;
use crate::build::{BuildError, BuildParams};
use crate::work::WorkError;

pub use crate::gen::Rng;

pub enum Sched { Serial, Random(Rng), Scripted(VecDeque<String>) }

struct Ctl { sched : Sched, sys : VSystem, flags : Arc<Mutex<CtlFlags>> }
#[derive(Default)]
pub struct CtlFlags { pub deadlock : bool, pub hang : bool, pub panics : Vec<String>, pub notenabled : usize, pub grants : usize, pub points : usize }
/*  scheduling points one invocation may pass before it is ended as not returning (a build of ten rules takes a few hundred) */
pub const STEP_BUDGET : usize = 20000;

impl Ctl
{
    fn name(&self, t : usize) -> String
    {
        let fs = self.sys.fs.lock().unwrap();
        if t == 0 { "main".to_string() } else { fs.names.get(t - 1).cloned().unwrap_or(format!("?t{}", t)) }
    }
}

impl Controller for Ctl
{
    fn pick(&mut self, enabled : &[(usize, Op)]) -> usize
    {
        let names : Vec<String> = enabled.iter().map(|(t, _)| self.name(*t)).collect();
        match &mut self.sched
        {
            Sched::Serial => enabled[0].0,
            Sched::Random(rng) => enabled[rng.below(enabled.len())].0,
            Sched::Scripted(picks) =>
            {
                if let Some(want) = picks.pop_front()
                {
                    for (i, n) in names.iter().enumerate() { if *n == want { return enabled[i].0; } }
                    self.flags.lock().unwrap().notenabled += 1;
                    picks.clear();
                }
                enabled[0].0
            },
        }
    }

    fn granted(&mut self, tid : usize, op : &Op)
    {
        self.flags.lock().unwrap().grants += 1;
        let t = self.name(tid);
        let ev = match op.kind.as_str()
        {
            "send" =>
            {
                let v = if op.b == "cancel" { "cancel".to_string() } else { self.sys.fs.lock().unwrap().label_of_ticket(&op.b) };
                json!({"a" : "step", "t" : t, "op" : "send", "v" : v})
            },
            "recv" => json!({"a" : "step", "t" : t, "op" : "recv"}),
            "join" => json!({"a" : "join", "t" : self.name(op.a.parse::<usize>().unwrap_or(0))}),
            _ => return,
        };
        self.sys.emit(ev);
    }

    fn deadlock(&mut self, _blocked : &[(usize, Op)]) { self.flags.lock().unwrap().deadlock = true; }
    fn abort(&mut self) -> bool
    {
        let mut f = self.flags.lock().unwrap();
        f.points += 1;
        if f.points > STEP_BUDGET { f.hang = true; }
        f.hang
    }
    fn finished(&mut self, tid : usize, panicked : bool) { if panicked { let n = self.name(tid); self.flags.lock().unwrap().panics.push(n); } }
}

pub struct RecPrinter { pub stat : Vec<(String, String)>, pub other : Vec<String> }
impl Printer for RecPrinter
{
    fn print_single_banner_line(&mut self, banner : &str, _color : termcolor::Color, path : &str) { self.stat.push((path.to_string(), banner.trim().to_string())); }
    fn print(&mut self, text : &str) { self.other.push(format!("out: {}", text)); }
    fn error(&mut self, text : &str) { self.other.push(format!("err: {}", text)); }
}

pub struct Outcome { pub verdict : String, pub errs : Vec<(String, String, String)>, pub stat : Vec<(String, String)>, pub flags : CtlFlags }

pub struct Scn
{
    pub sys : VSystem,
    pub rules : Vec<XRule>,
    pub ord : Vec<String>,
    pub names : Names,
    pub twin : Option<Box<Scn>>,     // same history, file-state table erased before every build (C18)
    pub out : Vec<Value>,
    pub check_serial : bool,         // run every build first on a copy under the serial schedule (C06)
    pub removed : BTreeSet<String>,  // top-level workspace directories the user has removed and not made again
}

pub const DIR : &str = ".ruler";
pub const RULEFILE : &str = "build.rules";

fn rid_of_path(rules : &Vec<XRule>, path : &str) -> String
{
    let first = path.split(',').next().unwrap_or("");
    for r in rules { if r.tg.iter().any(|t| t == first) { return r.rid(); } }
    "".to_string()
}

fn classify(rules : &Vec<XRule>, e : &WorkError) -> (String, String, String)
{
    match e
    {
        WorkError::FileNotFound(p) => ("FileNotFound".to_string(), p.clone(), "".to_string()),
        WorkError::TargetFileNotGenerated(p) => ("TargetFileNotGenerated".to_string(), p.clone(), rid_of_path(rules, p)),
        WorkError::CommandExecutedButErrored => ("CommandExecutedButErrored".to_string(), "".to_string(), "".to_string()),
        WorkError::Contradiction(paths) => { let j = paths.join(","); let r = rid_of_path(rules, &j); ("Contradiction".to_string(), j, r) },
        WorkError::ResolutionError(re) =>
        {
            let d = format!("{:?}", re);
            let k = d.split(|c : char| !c.is_alphanumeric()).next().unwrap_or("").to_string();
            ("ResolutionError".to_string(), k, "".to_string())
        },
        other =>
        {
            let d = format!("{:?}", other);
            (d.split(|c : char| !c.is_alphanumeric()).next().unwrap_or("").to_string(), "".to_string(), "".to_string())
        },
    }
}

impl Scn
{
    pub fn new(id : &str, ord : Vec<String>, tick : bool, with_twin : bool, meta : Value) -> Scn
    {
        let sys = VSystem::new(DIR, tick);
        let mut out = vec![];
        let mut m = json!({"a" : "reset", "sc" : id, "ord" : ord, "clock" : if tick { "tick" } else { "distinct" }});
        if let (Some(o), Some(mm)) = (m.as_object_mut(), meta.as_object()) { for (k, v) in mm { o.insert(k.clone(), v.clone()); } }
        out.push(m);
        let twin = if with_twin { Some(Box::new(Scn{sys : VSystem::new(DIR, tick), rules : vec![], ord : ord.clone(), names : Names::new(), twin : None, out : vec![], check_serial : false, removed : BTreeSet::new()})) } else { None };
        if let Some(t) = &twin { t.sys.fs.lock().unwrap().quiet = true; }
        Scn{sys : sys, rules : vec![], ord : ord, names : Names::new(), twin : twin, out : out, check_serial : false, removed : BTreeSet::new()}
    }

    fn flush(&mut self) { let ev = self.sys.take_events(); self.out.extend(ev); }
    fn user_tick(&self) { if self.sys.fs.lock().unwrap().tick_mode { self.sys.tick(); } }

    pub fn set_rules(&mut self, rules : &Vec<XRule>)
    {
        if let Some(t) = &mut self.twin { t.set_rules(rules); }
        self.rules = rules.clone();
        sort_rules(&mut self.rules);
        for r in &self.rules { self.names.rids.insert(rule_ticket(&r.tg, &r.src, &r.command_lines()), r.rid()); }
        self.user_tick();
        {   /* the directories the paths of the rules live in exist (mkdir -p by the user) */
            let mut fs = self.sys.fs.lock().unwrap();
            let removed = self.removed.clone();
            for r in rules.iter() { for p in r.tg.iter().chain(r.src.iter())
            {
                if p.contains('/') && removed.contains(p.split('/').next().unwrap_or("")) { continue; }    /* ... but not one the user has just removed */
                let mut at = 0;
                while let Some(i) = p[at..].find('/') { fs.dirs.insert(p[..at + i].to_string()); at += i + 1; }
            } }
        }
        self.sys.put(RULEFILE, &render(rules));
        self.sys.set_rules(&self.rules);
        self.out.push(json!({"a" : "rules", "rules" : rules_json(&self.rules)}));
    }

    pub fn edit(&mut self, p : &str, c : &str)
    {
        if self.removed.contains(p.split('/').next().unwrap_or("")) && p.contains('/') { return; }
        if let Some(t) = &mut self.twin { t.edit(p, c); }
        self.user_tick();
        self.sys.put(p, c);
        self.out.push(json!({"a" : "edit", "p" : p, "c" : c}));
    }

    pub fn del(&mut self, p : &str) -> bool
    {
        if !self.sys.exists(p) { return false; }
        if let Some(t) = &mut self.twin { t.del(p); }
        self.user_tick();
        self.sys.remove(p);
        self.out.push(json!({"a" : "del", "p" : p}));
        true
    }

    /*  cache entries as (file path, name label) */
    pub fn cache_entries(&self) -> Vec<(String, String)>
    {
        let pre = format!("{}/cache/", DIR);
        let fs = self.sys.fs.lock().unwrap();
        fs.files.keys().filter(|p| p.starts_with(&pre)).map(|p| (p.clone(), fs.label_of_ticket(&p[pre.len()..]))).collect()
    }

    pub fn delcache(&mut self, label : &str) -> bool
    {
        let e = self.cache_entries().into_iter().find(|(_, l)| l == label);
        match e
        {
            Some((path, l)) =>
            {
                if let Some(t) = &mut self.twin { t.delcache(label); }
                self.user_tick();
                self.sys.remove(&path);
                self.out.push(json!({"a" : "delcache", "n" : l}));
                true
            },
            None => false,
        }
    }

    pub fn delruler(&mut self, what : &str) -> bool
    {
        if !self.sys.fs.lock().unwrap().dirs.contains(DIR) { return false; }
        if let Some(t) = &mut self.twin { t.delruler(what); }
        self.user_tick();
        match what
        {
            "all" => self.sys.remove_tree(DIR),
            "cache" => self.sys.remove_tree(&format!("{}/cache", DIR)),
            "history" => self.sys.remove_tree(&format!("{}/history", DIR)),
            _ => { self.sys.remove(&format!("{}/current_file_states", DIR)); },
        }
        self.out.push(json!({"a" : "delruler", "what" : what}));
        true
    }

    /*  the paths of the scenario that live under the top-level directory d */
    pub fn paths_in(&self, d : &str) -> Vec<String>
    {
        let pre = format!("{}/", d);
        self.ord.iter().filter(|p| p.starts_with(&pre)).cloned().collect()
    }
    pub fn top_dirs(&self) -> Vec<String>
    {
        let mut v : Vec<String> = self.ord.iter().filter(|p| p.contains('/')).map(|p| p.split('/').next().unwrap().to_string()).collect();
        v.dedup(); v
    }

    /*  rm -r d: the directory goes with everything in it */
    pub fn rmdir(&mut self, d : &str) -> bool
    {
        let ps = self.paths_in(d);
        if ps.len() == 0 || self.removed.contains(d) || !self.sys.fs.lock().unwrap().dirs.contains(d) { return false; }
        if let Some(t) = &mut self.twin { t.rmdir(d); }
        self.user_tick();
        self.sys.remove_tree(d);
        self.removed.insert(d.to_string());
        self.out.push(json!({"a" : "rmdir", "d" : d, "ps" : ps}));
        true
    }

    /*  mkdir -p of d and of every directory of the scenario's paths under it */
    pub fn mkdir(&mut self, d : &str) -> bool
    {
        let ps = self.paths_in(d);
        if ps.len() == 0 || !self.removed.contains(d) { return false; }
        if let Some(t) = &mut self.twin { t.mkdir(d); }
        self.user_tick();
        {
            let mut fs = self.sys.fs.lock().unwrap();
            for p in ps.iter() { let mut at = 0; while let Some(i) = p[at..].find('/') { fs.dirs.insert(p[..at + i].to_string()); at += i + 1; } }
        }
        self.removed.remove(d);
        self.out.push(json!({"a" : "mkdir", "d" : d, "ps" : ps}));
        true
    }

    /*  mv / cp -p: the file keeps its stamp and mode */
    pub fn mv(&mut self, p : &str, q : &str) -> bool
    {
        if !self.sys.exists(p) || p == q || (q.contains('/') && self.removed.contains(q.split('/').next().unwrap_or(""))) { return false; }
        if let Some(t) = &mut self.twin { t.mv(p, q); }
        self.user_tick();
        {
            let mut fs = self.sys.fs.lock().unwrap();
            let f = fs.files.remove(p).unwrap();
            fs.files.insert(q.to_string(), f);
        }
        self.out.push(json!({"a" : "mv", "p" : p, "q" : q}));
        true
    }

    /*  damage a state file: "table" or the history file of the rule with the given id */
    pub fn corrupt(&mut self, what : &str, rid : &str) -> bool
    {
        let path = if what == "table" { format!("{}/current_file_states", DIR) }
            else
            {
                match self.names.rids.iter().find(|(_, r)| *r == rid) { Some((t, _)) => format!("{}/history/{}", DIR, t), None => return false }
            };
        if !self.sys.exists(&path) { return false; }
        {   /* only a file that currently decodes can be "damaged" in the model's sense */
            let fs = self.sys.fs.lock().unwrap();
            let data = fs.files.get(&path).unwrap().data.clone();
            let ok = if what == "table" { crate::project::decode_table(&data).is_some() } else { crate::project::decode_history(&data).is_some() };
            if !ok { return false; }
        }
        if let Some(t) = &mut self.twin { t.corrupt(what, rid); }
        self.user_tick();
        self.sys.put(&path, "\u{1}garbage");
        self.out.push(json!({"a" : "corrupt", "what" : what, "rid" : if what == "table" { "" } else { rid }}));
        true
    }

    pub fn history_rids(&self) -> Vec<String>
    {
        let pre = format!("{}/history/", DIR);
        let fs = self.sys.fs.lock().unwrap();
        fs.files.keys().filter(|p| p.starts_with(&pre) && crate::project::is_ticket_name(&p[pre.len()..])).filter_map(|p| self.names.rids.get(&p[pre.len()..]).cloned()).collect()
    }

    pub fn set_env(&mut self, v : &str)
    {
        if let Some(t) = &mut self.twin { t.set_env(v); }
        self.user_tick();
        self.sys.set_env(v);
        self.out.push(json!({"a" : "env", "v" : v}));
    }

    fn learn_sources(&mut self)
    {
        for r in self.rules.clone().iter()
        {
            let cs : Vec<Option<String>> = r.src.iter().map(|s| self.sys.get(s)).collect();
            if cs.iter().all(|c| c.is_some()) { self.names.learn_sources(&cs.into_iter().map(|c| c.unwrap()).collect()); }
        }
    }

    pub fn state(&mut self) -> Value
    {
        self.learn_sources();
        let fs = self.sys.fs.lock().unwrap();
        project(&fs.files, &fs.dirs, &fs, &self.names, &self.ord)
    }

    pub fn state_of_snap(&mut self, snap : &Snap) -> Value
    {
        let fs = self.sys.fs.lock().unwrap();
        project(&snap.files, &snap.dirs, &fs, &self.names, &self.ord)
    }

    fn thread_names(&self, goal : &Option<String>, with_leaves : bool) -> Vec<String>
    {
        let quiet = self.sys.fork(true);
        match crate::build::get_nodes(&quiet, vec![RULEFILE.to_string()], goal.clone())
        {
            Ok(pack) =>
            {
                let mut names = vec![];
                if with_leaves { for l in pack.leaves.iter() { names.push(l.clone()); } }
                for n in pack.nodes.iter() { let mut t = n.targets.clone(); t.sort(); names.push(t[0].clone()); }
                names
            },
            Err(_) => vec![],
        }
    }

    /*  runs build (is_build) or clean on `sys` under the given schedule; events go to sys' sink */
    pub fn run_raw(sys : &VSystem, rules : &Vec<XRule>, is_build : bool, goal : &Option<String>, sched : Sched) -> Outcome
    {
        let flags = Arc::new(Mutex::new(CtlFlags::default()));
        let ctl = Box::new(Ctl{sched : sched, sys : sys.clone(), flags : flags.clone()});
        let s2 = sys.clone(); let g2 = goal.clone();
        let mut printer = RecPrinter{stat : vec![], other : vec![]};
        let (result, aborted, _ctl) = shim::run_controlled(ctl, ||
        {
            if is_build { crate::build::build(s2, &mut printer, BuildParams::from_all(DIR.to_string(), vec![RULEFILE.to_string()], None, g2)) }
            else { crate::build::clean(s2, DIR, vec![RULEFILE.to_string()], g2) }
        });
        let mut errs = vec![];
        let verdict = match result
        {
            Err(_) => "panic".to_string(),
            Ok(Ok(())) => if is_build { "ok".to_string() } else { "cleaned".to_string() },
            Ok(Err(BuildError::WorkErrors(v))) => { for e in v.iter() { errs.push(classify(rules, e)); } "fail".to_string() },
            Ok(Err(e)) => { let d = format!("{:?}", e); format!("err:{}", d.split(|c : char| !c.is_alphanumeric()).next().unwrap_or("")) },
        };
        let f = std::mem::take(&mut *flags.lock().unwrap());
        let verdict = if f.hang { "hang".to_string() } else if aborted || f.deadlock { "deadlock".to_string() } else { verdict };
        Outcome{verdict : verdict, errs : errs, stat : printer.stat, flags : f}
    }

    fn ws_contents(sys : &VSystem, ord : &Vec<String>) -> Value
    {
        let fs = sys.fs.lock().unwrap();
        let mut m = serde_json::Map::new();
        for (p, f) in fs.files.iter() { if ord.contains(p) { m.insert(p.clone(), Value::String(fs.label_of_ticket(&crate::sha256::ticket_of(&f.data)))); } }
        Value::Object(m)
    }

    fn errs_json(errs : &Vec<(String, String, String)>) -> Value
    {
        Value::Array(errs.iter().map(|(a, b, c)| json!([a, b, c])).collect())
    }

    /*  one invocation; returns the outcome and, if requested, the crash snapshots taken during it */
    pub fn invoke(&mut self, is_build : bool, goal : &str, sched : Sched, snaps : bool) -> (Outcome, Vec<Snap>)
    {
        let goal_opt = if goal == "" { None } else { Some(goal.to_string()) };
        let mut start = json!({"a" : if is_build { "build" } else { "clean" }, "g" : goal});

        /* C18: the same invocation in the twin run (table erased before a build) */
        let mut twin_out = None;
        if let Some(t) = &mut self.twin
        {
            if is_build { t.sys.remove(&format!("{}/current_file_states", DIR)); }
            if t.sys.fs.lock().unwrap().tick_mode { t.sys.tick(); }
            let names = t.thread_names(&goal_opt, is_build);
            t.sys.fs.lock().unwrap().names = names;
            let o = Scn::run_raw(&t.sys, &t.rules, is_build, &goal_opt, Sched::Serial);
            twin_out = Some(json!({"verdict" : o.verdict, "ws" : Scn::ws_contents(&t.sys, &t.ord)}));
        }

        /* C06: the same invocation on a copy under the serial schedule */
        if self.check_serial && is_build
        {
            let copy = self.sys.fork(true);
            if copy.fs.lock().unwrap().tick_mode { copy.tick(); }
            let names = self.thread_names(&goal_opt, true);
            copy.fs.lock().unwrap().names = names;
            let o = Scn::run_raw(&copy, &self.rules, true, &goal_opt, Sched::Serial);
            start["serial"] = json!({"verdict" : o.verdict, "errs" : Scn::errs_json(&o.errs), "ws" : Scn::ws_contents(&copy, &self.ord)});
        }

        self.user_tick();
        start["state"] = self.state();
        self.out.push(start);
        let names = self.thread_names(&goal_opt, is_build);
        {
            let mut fs = self.sys.fs.lock().unwrap();
            fs.names = names; fs.touched.clear(); fs.overw.clear(); fs.takes.clear(); fs.snaps.clear(); fs.snap_on = snaps; fs.nmut = 0;
        }
        let o = Scn::run_raw(&self.sys, &self.rules, is_build, &goal_opt, sched);
        self.flush();
        let (touched, overw, taken) =
        {
            let mut fs = self.sys.fs.lock().unwrap();
            fs.snap_on = false;
            (fs.touched.iter().cloned().collect::<Vec<_>>(), fs.overw.clone(), std::mem::take(&mut fs.snaps))
        };
        let state = self.state();
        let mut ret = json!({"a" : "ret", "kind" : if is_build { "build" } else { "clean" }, "verdict" : o.verdict,
            "errs" : Scn::errs_json(&o.errs),
            "stat" : o.stat.iter().map(|(p, s)| json!([p, s])).collect::<Vec<_>>(),
            "touched" : touched, "overw" : overw, "panics" : o.flags.panics, "notenabled" : o.flags.notenabled,
            "state" : state});
        if let Some(t) = twin_out { ret["twin"] = t; }
        self.out.push(ret);
        (o, taken)
    }
}

pub fn ord_of(rules_menu : &Vec<Vec<XRule>>, extra : &[&str]) -> Vec<String>
{
    let mut set = std::collections::BTreeSet::new();
    for rules in rules_menu { for r in rules { for t in &r.tg { set.insert(t.clone()); } for s in &r.src { set.insert(s.clone()); } } }
    for e in extra { set.insert(e.to_string()); }
    set.into_iter().collect()
}

pub use crate::gen::{write_lines, counts};
