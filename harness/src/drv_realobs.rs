// Observation-mode driver on the REAL file system: the real `ruler` binary of the current tree (guard off), real threads,
// real `sh` commands that implement the harness' command semantics and log what they read and wrote.  Random histories of
// user-level actions and invocations; the projected disk state is logged at every invocation start and return.  TLC judges
// the recorded events with RulerObs (no step-level conformance: the threads run freely).
use std::collections::{BTreeMap, BTreeSet};
use std::os::unix::fs::PermissionsExt;
use std::path::{Path, PathBuf};
use std::process::Command;
use serde_json::{json, Value, Map};
use crate::model::{XRule, sort_rules, bundle_order};
use crate::decode::{decode_history, decode_table, rule_ticket};
use crate::gen::Rng;
use crate::sha256::{ticket_of, b62, sha256};
use crate::gen::{gen_rules, profile};

fn sq(s : &str) -> String { format!("'{}'", s.replace('\'', "'\\''")) }

/*  A scenario may have one source that is a directory, always called "dl": ruler hashes the sorted list of the paths in it followed by
    the hashes of the files.  Its "content" in the model is the label D[name=content,...] (names in sorted order). */
pub const DIRLEAF : &str = "dl";
fn cat_expr(p : &str) -> String
{
    if p == DIRLEAF { format!("{{ printf 'D['; sep=''; for f in {}/*; do printf '%s%s=' \"$sep\" \"${{f##*/}}\"; cat \"$f\"; sep=','; done; printf ']'; }}", DIRLEAF) }
    else { format!("cat {}", sq(p)) }
}
fn test_expr(p : &str) -> String { if p == DIRLEAF { format!("test -d {}", DIRLEAF) } else { format!("test -f {}", sq(p)) } }

/*  the shell line that implements rule r (index k among the current rules) */
fn shell_line(r : &XRule, k : usize) -> String
{
    let x = format!("\"$RULER_XLOG\"/R{}.$$", k);
    let mut s = String::new();
    s.push_str(&format!("{{ printf 'B'; {} }} > {}.b; ", r.src.iter().map(|p| format!("printf '\\037'; {{ {} && {}; }} 2>/dev/null || printf 'MISSING';", test_expr(p), cat_expr(p))).collect::<Vec<_>>().join(" "), x));
    let mut work : Vec<String> = r.src.iter().map(|p| test_expr(p)).collect();
    /* like vcmd: nothing is written unless every target's directory is there */
    for t in r.tg.iter() { if let Some(i) = t.rfind('/') { work.push(format!("test -d {}", sq(&t[..i]))); } }
    if r.kind == "fail" || r.kind == "kill" { work.push("false".to_string()); }
    else
    {
        for (i, t) in r.tg.iter().enumerate()
        {
            if i + 1 == r.omit { continue; }
            let gen = match r.kind.as_str()
            {
                "copy" => cat_expr(&r.src[0]),
                "const" => format!("printf '%s' {}", sq(&format!("K({})", r.id))),
                "empty" => "true".to_string(),
                "sel" => format!("{{ printf '%s' {}; {}; printf ']'; }}", sq(&format!("F({},{})[", r.id, i + 1)), cat_expr(&r.src[i % r.src.len()])),
                _ => format!("{{ printf '%s' {}; {} printf ']'; }}", sq(&format!("F({},{})[", r.id, i + 1)),
                        r.src.iter().enumerate().map(|(j, p)| format!("{}{};", if j > 0 { "printf '%s' '|'; " } else { "" }, cat_expr(p))).collect::<Vec<_>>().join(" ")),
            };
            /* a target in the rule's mask also depends on the undeclared input (the file .env, which is no source of any rule) */
            let gen = if r.mask.contains(&(i + 1)) { format!("{{ {}; printf '@'; cat .env; }}", gen) } else { gen };
            work.push(format!("{} > {}", gen, sq(t)));
            if r.x { work.push(format!("chmod +x {}", sq(t))); }
        }
    }
    s.push_str(&format!("( {} ) 2>/dev/null; rc=$?; ", work.join(" && ")));
    s.push_str(&format!("{{ printf 'E\\037%s' \"$rc\"; {} }} > {}.e; exit $rc", r.tg.iter().map(|p| format!("printf '\\037'; cat {} 2>/dev/null || printf 'MISSING';", sq(p))).collect::<Vec<_>>().join(" "), x));
    /* a command that is ended by a signal (no exit code at all): the shell kills itself once its record is written */
    if r.kind == "kill" { s = s.replace("; exit $rc", "; kill -KILL $$"); }
    s
}

fn command_lines(r : &XRule, k : usize) -> Vec<String>
{
    let mut l = vec![];
    if r.pf { l.push("false".to_string()); l.push(";".to_string()); }
    l.push(shell_line(r, k));
    l
}

fn rid(r : &XRule, k : usize) -> String { format!("R{{{}}}{{{}}}{{{}}}", r.tg.join(","), r.src.join(","), command_lines(r, k).join("|")) }

fn rules_json(rules : &Vec<XRule>) -> Value
{
    Value::Array(rules.iter().enumerate().map(|(k, r)| json!({"tg" : r.tg, "src" : r.src, "cl" : command_lines(r, k), "kind" : if r.kind == "kill" { "fail" } else { r.kind.as_str() }, "id" : r.id,
        "omit" : r.omit, "mask" : r.mask, "x" : r.x, "pf" : r.pf})).collect())
}

fn render(rules : &Vec<XRule>) -> String
{
    let mut out = String::new();
    for (k, r) in rules.iter().enumerate()
    {
        /* flat spelling only: bundles are exercised by the in-memory drivers and by the parser check */
        let (mut tg, mut src) = (r.tg.clone(), r.src.clone());
        if r.rev { tg.reverse(); src.reverse(); }
        for t in &tg { out.push_str(t); out.push('\n'); }
        out.push_str(":\n");
        for s in &src { out.push_str(s); out.push('\n'); }
        out.push_str(":\n");
        for l in command_lines(r, k) { out.push_str(&l); out.push('\n'); }
        out.push_str(":\n\n");
    }
    out
}

struct RScn
{
    dir : PathBuf, xlog : PathBuf, bin : String,
    rules : Vec<XRule>, ord : Vec<String>,
    dict : BTreeMap<String, String>, rids : BTreeMap<String, String>, shs : BTreeMap<String, String>,
    out : Vec<Value>,
    run_toggle : bool,
    quiet : bool,                    // the twin of a scenario: same history, file-state table erased before every build; nothing is logged
    removed : BTreeSet<String>,      // top-level workspace directories the user has removed
}

static HANGS : std::sync::atomic::AtomicUsize = std::sync::atomic::AtomicUsize::new(0);
fn pause() { std::thread::sleep(std::time::Duration::from_millis(9)); }

impl RScn
{
    fn learn(&mut self, bytes : &[u8]) -> String
    {
        let label = String::from_utf8_lossy(bytes).to_string();
        self.dict.entry(ticket_of(bytes)).or_insert(label.clone());
        label
    }
    fn label(&self, t : &str) -> String { self.dict.get(t).cloned().unwrap_or(format!("?{}", t)) }

    fn mtime(p : &Path) -> u64
    {
        std::fs::metadata(p).ok().and_then(|m| m.modified().ok()).and_then(|t| t.duration_since(std::time::UNIX_EPOCH).ok()).map(|d| d.as_micros() as u64).unwrap_or(0)
    }

    /*  the directory leaf: (ruler's hash of it, its label); both from the harness' own reading of the directory */
    fn dir_leaf(&mut self) -> Option<([u8; 32], String)>
    {
        let d = self.dir.join(DIRLEAF);
        if !d.is_dir() { return None; }
        let mut names : Vec<String> = std::fs::read_dir(&d).ok()?.filter_map(|e| e.ok()).map(|e| e.file_name().to_string_lossy().to_string()).collect();
        names.sort();
        let paths : Vec<String> = names.iter().map(|n| format!("{}/{}", DIRLEAF, n)).collect();
        let mut cat : Vec<u8> = paths.join("\n").into_bytes();
        let mut parts = vec![];
        for (n, p) in names.iter().zip(paths.iter())
        {
            let b = std::fs::read(self.dir.join(p)).ok()?;
            cat.extend_from_slice(&sha256(&b));
            parts.push(format!("{}={}", n, String::from_utf8_lossy(&b)));
        }
        let h = sha256(&cat);
        let label = format!("D[{}]", parts.join(","));
        self.dict.entry(b62(&h)).or_insert(label.clone());
        Some((h, label))
    }

    /*  hash and label of a source as ruler sees it */
    fn source_hash(&mut self, p : &str) -> Option<([u8; 32], String)>
    {
        if p == DIRLEAF { return self.dir_leaf(); }
        let b = std::fs::read(self.dir.join(p)).ok()?;
        Some((sha256(&b), String::from_utf8_lossy(&b).to_string()))
    }

    fn state(&mut self) -> Value
    {
        /* contents of the sources of every rule name the sources-hashes ruler may have recorded */
        for r in self.rules.clone().iter()
        {
            let hs : Vec<Option<([u8; 32], String)>> = r.src.iter().map(|s| self.source_hash(s)).collect();
            if hs.iter().all(|c| c.is_some())
            {
                let v : Vec<([u8; 32], String)> = hs.into_iter().map(|c| c.unwrap()).collect();
                let mut cat = vec![]; for (h, _) in v.iter() { cat.extend_from_slice(h); }
                self.shs.insert(ticket_of(&cat), format!("H[{}]", v.iter().map(|(_, l)| l.clone()).collect::<Vec<_>>().join("|")));
            }
        }
        let mut ws = Map::new(); let mut cache = Map::new(); let mut hist = Map::new(); let mut fstab = Map::new(); let mut htorn = vec![]; let mut other = vec![];
        for p in self.ord.clone().iter()
        {
            let path = self.dir.join(p);
            if p == DIRLEAF { if let Some((_, l)) = self.dir_leaf() { ws.insert(p.clone(), json!({"c" : l, "m" : RScn::mtime(&path), "x" : false})); } continue; }
            if let Ok(b) = std::fs::read(&path)
            {
                let l = self.learn(&b);
                let x = std::fs::metadata(&path).map(|m| m.permissions().mode() & 0o111 != 0).unwrap_or(false);
                ws.insert(p.clone(), json!({"c" : l, "m" : RScn::mtime(&path), "x" : x}));
            }
        }
        let rd = self.dir.join(".ruler");
        let mut cfiles = vec![];
        if let Ok(d) = std::fs::read_dir(rd.join("cache")) { for e in d.filter_map(|e| e.ok()) { if let Ok(b) = std::fs::read(e.path()) { self.learn(&b); cfiles.push((e.file_name().to_string_lossy().to_string(), e.path(), b)); } } }
        for (name, path, b) in cfiles.iter()
        {
            let x = std::fs::metadata(path).map(|m| m.permissions().mode() & 0o111 != 0).unwrap_or(false);
            cache.insert(self.label(name), json!({"c" : String::from_utf8_lossy(b).to_string(), "m" : RScn::mtime(path), "x" : x}));
        }
        if let Ok(d) = std::fs::read_dir(rd.join("history")) { for e in d.filter_map(|e| e.ok())
        {
            let name = e.file_name().to_string_lossy().to_string();
            if !(name.len() == 43 && name.bytes().all(|c| c.is_ascii_alphanumeric())) { continue; }      /* scratch files are not histories */
            let rid = self.rids.get(&name).cloned().unwrap_or(format!("?{}", name));
            match std::fs::read(e.path()).ok().and_then(|b| decode_history(&b))
            {
                Some(h) =>
                {
                    let mut m = Map::new();
                    for (k, v) in h.iter() { m.insert(self.shs.get(&b62(k)).cloned().unwrap_or(format!("?{}", b62(k))), Value::Array(v.iter().map(|(t, _, _)| Value::String(self.label(&b62(t)))).collect())); }
                    hist.insert(rid, Value::Object(m));
                },
                None => htorn.push(rid),
            }
        } }
        let tpath = rd.join("current_file_states");
        let tab = match std::fs::read(&tpath)
        {
            Err(_) => "absent",
            Ok(b) => match decode_table(&b)
            {
                None => "torn",
                Some(t) => { for (p, (h, m, x)) in t.iter() { fstab.insert(p.clone(), json!({"h" : self.label(&b62(h)), "m" : m, "x" : x})); } "ok" },
            },
        };
        if let Ok(d) = std::fs::read_dir(&self.dir) { for e in d.filter_map(|e| e.ok())
        {
            let n = e.file_name().to_string_lossy().to_string();
            if n != ".ruler" && n != ".env" && n != "build.rules" && !self.ord.contains(&n) && !e.path().is_dir() { other.push(n); }
        } }
        let nodir : Vec<String> = self.ord.iter().filter(|p| match p.rfind('/') { Some(i) => !self.dir.join(&p[..i]).is_dir(), None => false }).cloned().collect();
        json!({"ws" : ws, "cache" : cache, "hist" : hist, "fstab" : fstab,
               "rdir" : {"root" : rd.is_dir(), "cache" : rd.join("cache").is_dir(), "hist" : rd.join("history").is_dir(), "tab" : tab, "htorn" : htorn, "nodir" : nodir}, "other" : other})
    }

    fn set_rules(&mut self, rules : &Vec<XRule>)
    {
        self.rules = rules.clone();
        sort_rules(&mut self.rules);
        for (k, r) in self.rules.clone().iter().enumerate()
        {
            self.rids.insert(rule_ticket(&r.tg, &r.src, &command_lines(r, k)), rid(r, k));
            for p in r.tg.iter().chain(r.src.iter()) { if let Some(i) = p.rfind('/') { if !self.removed.contains(p.split('/').next().unwrap()) { let _ = std::fs::create_dir_all(self.dir.join(&p[..i])); } } }
        }
        std::fs::write(self.dir.join("build.rules"), render(&self.rules)).unwrap();
        let js = rules_json(&self.rules);
        self.out.push(json!({"a" : "rules", "rules" : js}));
        pause();
    }

    fn edit(&mut self, p : &str, c : &str)
    {
        if std::fs::write(self.dir.join(p), c).is_err() { return; }
        self.learn(c.as_bytes());
        self.out.push(json!({"a" : "edit", "p" : p, "c" : c}));
        pause();
    }

    /*  hand-modification of a target by putting a symbolic link in its place: the content readable at the path is c (the link's
        own file lives in the scenario directory under a name no rule mentions) */
    fn edit_link(&mut self, p : &str, c : &str, n : usize)
    {
        let ext = self.dir.join(format!(".lnk{}", n));
        if std::fs::write(&ext, c).is_err() { return; }
        let _ = std::fs::remove_file(self.dir.join(p));
        if std::os::unix::fs::symlink(&ext, self.dir.join(p)).is_err() { let _ = std::fs::write(self.dir.join(p), c); }
        self.learn(c.as_bytes());
        self.out.push(json!({"a" : "edit", "p" : p, "c" : c}));
        pause();
    }

    fn paths_in(&self, d : &str) -> Vec<String> { let pre = format!("{}/", d); self.ord.iter().filter(|p| p.starts_with(&pre)).cloned().collect() }
    fn top_dirs(&self) -> Vec<String> { let mut v : Vec<String> = self.ord.iter().filter(|p| p.contains('/')).map(|p| p.split('/').next().unwrap().to_string()).collect(); v.dedup(); v }
    fn rmdir(&mut self, d : &str)
    {
        let ps = self.paths_in(d);
        let _ = std::fs::remove_dir_all(self.dir.join(d));
        self.removed.insert(d.to_string());
        self.out.push(json!({"a" : "rmdir", "d" : d, "ps" : ps}));
        pause();
    }
    fn mkdir(&mut self, d : &str)
    {
        let ps = self.paths_in(d);
        for p in ps.iter() { if let Some(i) = p.rfind('/') { let _ = std::fs::create_dir_all(self.dir.join(&p[..i])); } }
        self.removed.remove(d);
        self.out.push(json!({"a" : "mkdir", "d" : d, "ps" : ps}));
        pause();
    }
    /*  a file inside the directory leaf gets new content (the directory's own modification time does not change) */
    fn edit_in_dir(&mut self, name : &str, c : &str)
    {
        if std::fs::write(self.dir.join(DIRLEAF).join(name), c).is_err() { return; }
        if let Some((_, l)) = self.dir_leaf() { self.out.push(json!({"a" : "edit", "p" : DIRLEAF, "c" : l})); }
        pause();
    }
    /*  a file inside the directory leaf is deleted and created again with the same bytes: nothing changes as far as the
        model is concerned (no event), but the order in which the file system lists the directory may */
    fn recreate_in_dir(&mut self, name : &str)
    {
        let p = self.dir.join(DIRLEAF).join(name);
        if let Ok(b) = std::fs::read(&p) { let _ = std::fs::remove_file(&p); let _ = std::fs::write(&p, b); }
        pause();
    }
    fn set_env(&mut self, v : &str)
    {
        std::fs::write(self.dir.join(".env"), v).unwrap();
        self.out.push(json!({"a" : "env", "v" : v}));
        pause();
    }
    fn ws_labels(&mut self) -> Value
    {
        let mut m = Map::new();
        for p in self.ord.clone().iter()
        {
            if p == DIRLEAF { if let Some((_, l)) = self.dir_leaf() { m.insert(p.clone(), Value::String(l)); } continue; }
            if let Ok(b) = std::fs::read(self.dir.join(p)) { let l = self.learn(&b); m.insert(p.clone(), Value::String(l)); }
        }
        Value::Object(m)
    }

    /*  sink 0: ruler's standard output is captured; 1: it is a device that cannot be written (/dev/full) */
    fn invoke(&mut self, is_build : bool, goal : &str, twin : Option<Value>, sink : usize) -> Value
    {
        if self.quiet && is_build { let _ = std::fs::remove_file(self.dir.join(".ruler").join("current_file_states")); }
        let st = if self.quiet { Value::Null } else { self.state() };
        self.out.push(json!({"a" : if is_build { "build" } else { "clean" }, "g" : goal, "state" : st}));
        let _ = std::fs::remove_dir_all(&self.xlog); std::fs::create_dir_all(&self.xlog).unwrap();
        /* `ruler run <target>` builds the target like `ruler build <target>` and then tries to execute it (the outcome of that execution
           is not reported unless it cannot be started): now and then used in place of a goal-restricted build */
        let use_run = is_build && goal != "" && self.run_toggle;
        self.run_toggle = !self.run_toggle;
        let mut args = vec![if use_run { "run" } else if is_build { "build" } else { "clean" }];
        if goal != "" { args.push(goal); }
        let (fo, fe) = (self.xlog.with_extension("stdout"), self.xlog.with_extension("stderr"));
        let full = if sink == 1 { std::fs::OpenOptions::new().write(true).open("/dev/full").ok() } else { None };
        let sink = if full.is_some() { 1 } else { 0 };
        let stdout = match full { Some(f) => f, None => std::fs::File::create(&fo).expect("stdout file") };
        let mut child = Command::new(&self.bin).args(&args).current_dir(&self.dir).env("RULER_XLOG", &self.xlog)
            .stdin(std::process::Stdio::null()).stdout(stdout).stderr(std::fs::File::create(&fe).expect("stderr file")).spawn().expect("run ruler");
        /* an invocation that does not return within 30 s (they take milliseconds) is ended and recorded as hanging; after three of them
           in one run of the driver the limit is 3 s, so that a ruler that always hangs does not cost half a minute per invocation */
        let limit = if HANGS.load(std::sync::atomic::Ordering::SeqCst) >= 3 { 3 } else { 30 };
        let t0 = std::time::Instant::now();
        let mut hung = false;
        let status = loop
        {
            match child.try_wait().expect("wait")
            {
                Some(st) => break Some(st),
                None => { if t0.elapsed().as_secs() >= limit { let _ = child.kill(); let _ = child.wait(); hung = true; HANGS.fetch_add(1, std::sync::atomic::Ordering::SeqCst); break None; } std::thread::sleep(std::time::Duration::from_millis(2)); },
            }
        };
        let code = status.and_then(|s| s.code());
        let so = if sink == 1 { String::new() } else { String::from_utf8_lossy(&std::fs::read(&fo).unwrap_or_default()).to_string() };
        let se = String::from_utf8_lossy(&std::fs::read(&fe).unwrap_or_default()).to_string();
        let _ = std::fs::remove_file(&fo); let _ = std::fs::remove_file(&fe);
        /* executions logged by the commands themselves */
        let mut recs : BTreeMap<String, (Vec<String>, Vec<String>)> = BTreeMap::new();
        if let Ok(d) = std::fs::read_dir(&self.xlog) { for e in d.filter_map(|e| e.ok())
        {
            let n = e.file_name().to_string_lossy().to_string();
            let (key, ext) = (n[..n.len() - 2].to_string(), n[n.len() - 1..].to_string());
            let fields : Vec<String> = String::from_utf8_lossy(&std::fs::read(e.path()).unwrap_or_default()).split('\u{1f}').map(|s| s.to_string()).collect();
            let ent = recs.entry(key).or_insert((vec![], vec![]));
            if ext == "b" { ent.0 = fields; } else { ent.1 = fields; }
        } }
        for (key, (b, e)) in recs.iter()
        {
            let k : usize = key[1..key.find('.').unwrap_or(key.len())].parse().unwrap_or(0);
            if k >= self.rules.len() { continue; }
            let r = self.rules[k].clone();
            let seen : Vec<String> = b.iter().skip(1).cloned().collect();
            let rc = e.get(1).cloned().unwrap_or("?".to_string());
            let outs : Vec<String> = if e.len() >= 2 { e.iter().skip(2).cloned().collect() } else { r.tg.iter().map(|_| "MISSING".to_string()).collect() };
            for c in seen.iter().chain(outs.iter()) { if c != "MISSING" { self.learn(c.as_bytes()); } }
            self.out.push(json!({"a" : "step", "t" : bundle_order(&r.tg)[0], "op" : "exec", "rid" : rid(&r, k), "seen" : seen, "ok" : rc == "0" && !r.pf, "outs" : outs}));
        }
        /* status lines and verdict */
        let strip = |s : &str| -> String { let mut o = String::new(); let mut esc = false; for ch in s.chars() { if esc { if ch == 'm' { esc = false; } } else if ch == '\u{1b}' { esc = true; } else { o.push(ch); } } o };
        let mut stat = vec![];
        for l in strip(&so).lines() { for st in ["Built", "Recovered", "Up-to-date", "Outdated", "Downloaded"] { if let Some(p) = l.trim_start().strip_prefix(&format!("{}: ", st)) { stat.push(json!([p, st])); } } }
        let mut errs = vec![];
        /* with `run` the executed target shares ruler's stderr: keep only what ruler itself can have written */
        let known = ["File not found: ", "Target file missing after running build command: ", "Command executed but errored", "The following targets failed", "This might mean",
                     "Error resolving rule", "Dependence search failed", "Error history file not found", "Rule history error", "Weird", "Target built but failed to execute", "panicked"];
        let se_t = if use_run
            { let mut keep = vec![]; let mut in_contra = false;
              for l in se.lines() { if l.starts_with("The following targets failed") { in_contra = true; } if in_contra || known.iter().any(|k| l.starts_with(k) || l.contains("panicked")) { keep.push(l); } if l.starts_with("This might mean") { in_contra = false; } }
              keep.join("\n").trim().to_string() }
            else { se.trim().to_string() };
        let path_rid = |rules : &Vec<XRule>, p : &str| -> String { for (k, r) in rules.iter().enumerate() { if r.tg.iter().any(|t| t == p) { return rid(r, k); } } "".to_string() };
        let verdict =
        if hung { "hang".to_string() }
        else if code == Some(101) || se_t.contains("panicked") { "panic".to_string() }
        else if se_t == "" { if is_build { "ok".to_string() } else { "cleaned".to_string() } }
        else if se_t.starts_with("Dependence search failed") { "err:TopologicalSortFailed".to_string() }
        else if se_t.starts_with("Error history file not found") { "err:FailedToReadCurrentFileStates".to_string() }
        else if se_t.starts_with("Rule history error") { "err:HistoryError".to_string() }
        else if se_t.starts_with("Weird") { "err:Weird".to_string() }
        else
        {
            let lines : Vec<&str> = se_t.lines().collect();
            let mut i = 0;
            while i < lines.len()
            {
                let l = lines[i];
                if let Some(p) = l.strip_prefix("File not found: ") { errs.push(json!(["FileNotFound", p, ""])); }
                else if let Some(p) = l.strip_prefix("Target file missing after running build command: ") { errs.push(json!(["TargetFileNotGenerated", p, path_rid(&self.rules, p)])); }
                else if l == "Command executed but errored" { errs.push(json!(["CommandExecutedButErrored", "", ""])); }
                else if l.starts_with("The following targets failed to record into history")
                {
                    let mut ps = vec![]; i += 1;
                    while i < lines.len() && !lines[i].starts_with("This might mean") { ps.push(lines[i].to_string()); i += 1; }
                    errs.push(json!(["Contradiction", ps.join(","), path_rid(&self.rules, &ps.get(0).cloned().unwrap_or_default())]));
                }
                else if l.starts_with("Error resolving rule")
                {
                    let k = if l.contains("System error while attempting to use cache") { "CacheMalfunction" } else if l.contains("Cache directory missing") { "CacheDirectoryMissing" }
                            else if l.contains("Ticket alignment error") { "TicketAlignmentError" } else if l.contains("attempting to read file from local cache") { "FileNotAvailableToCache" } else { l };
                    errs.push(json!(["ResolutionError", k, ""]));
                }
                else if l.trim() != "" { errs.push(json!(["Other", l, ""])); }
                i += 1;
            }
            "fail".to_string()
        };
        if self.quiet { pause(); return json!({"verdict" : verdict, "ws" : self.ws_labels()}); }
        let st = self.state();
        let mut ret = json!({"a" : "ret", "kind" : if is_build { "build" } else { "clean" }, "verdict" : verdict, "errs" : errs, "stat" : stat,
            "touched" : [], "overw" : [], "panics" : [], "notenabled" : 0, "stderr" : se_t.chars().take(300).collect::<String>(), "state" : st});
        if sink == 1 { ret["nostat"] = json!(true); }
        if let Some(t) = twin { ret["twin"] = t; }
        self.out.push(ret);
        pause();
        Value::Null
    }
}

/*  stamps are microseconds since the epoch: replace them by their rank among all stamps of the scenario (TLC has 32-bit integers) */
fn rank_stamps(events : &mut Vec<Value>)
{
    fn collect(v : &Value, set : &mut BTreeSet<u64>) { match v { Value::Object(m) => { for (k, x) in m { if k == "m" { if let Some(n) = x.as_u64() { set.insert(n); } } else { collect(x, set); } } }, Value::Array(a) => { for x in a { collect(x, set); } }, _ => {} } }
    fn apply(v : &mut Value, rank : &BTreeMap<u64, u64>) { match v { Value::Object(m) => { for (k, x) in m.iter_mut() { if k == "m" { if let Some(n) = x.as_u64() { *x = json!(rank.get(&n).cloned().unwrap_or(0)); } } else { apply(x, rank); } } }, Value::Array(a) => { for x in a { apply(x, rank); } }, _ => {} } }
    let mut set = BTreeSet::new();
    for e in events.iter() { if let Some(s) = e.get("state") { collect(s, &mut set); } }
    set.remove(&0);
    let rank : BTreeMap<u64, u64> = set.iter().enumerate().map(|(i, m)| (*m, i as u64 + 1)).collect();
    for e in events.iter_mut() { if let Some(s) = e.get_mut("state") { apply(s, &rank); } }
}

pub fn real_histories(bin : &str, base : &str, n : usize, seed : u64, prof : &str) -> Vec<Value>
{
    let mut all = vec![];
    let with_env = prof == "realenv";
    for k in 0..n
    {
        let mut rng = Rng::new(seed.wrapping_mul(1000003).wrapping_add(k as u64));
        if prof == "realwide" { all.extend(wide_history(bin, base, k, seed, &mut rng)); continue; }
        let mut pr = profile(if with_env { "env" } else { "core" }); pr.max_rules = 4; pr.max_steps = 8;
        let (mut rules, leaves) = gen_rules(&mut rng, &pr);
        for r in rules.iter_mut() { r.pk = false; if !with_env { r.mask.clear(); } r.layout = 0; r.flat = true; }
        /* one scenario in three has a directory among the sources of some of its rules */
        let with_dir = rng.chance(1, 3);
        if with_dir { let mut any = false; for r in rules.iter_mut() { if !any || rng.chance(1, 3) { r.src.push(DIRLEAF.to_string()); r.src.sort(); any = true; } } }
        let targets : Vec<String> = rules.iter().flat_map(|r| r.tg.clone()).collect();
        let mut ord : BTreeSet<String> = BTreeSet::new();
        for r in rules.iter() { for p in r.tg.iter().chain(r.src.iter()) { ord.insert(p.clone()); } }
        for l in leaves.iter() { ord.insert(l.clone()); }
        ord.insert("zz".to_string());
        let ordv : Vec<String> = ord.into_iter().collect();
        let mk = |tag : &str, quiet : bool| -> RScn
        {
            let dir = Path::new(base).join(format!("obs{}{}", k, tag));
            let _ = std::fs::remove_dir_all(&dir); std::fs::create_dir_all(&dir).unwrap();
            RScn{dir : dir, xlog : Path::new(base).join(format!("obs{}{}.xlog", k, tag)), bin : bin.to_string(), rules : vec![], ord : ordv.clone(),
                 dict : BTreeMap::new(), rids : BTreeMap::new(), shs : BTreeMap::new(), out : vec![], run_toggle : false, quiet : quiet, removed : BTreeSet::new()}
        };
        /* the twin lives the same history with the file-state table erased before every build (C18) */
        let mut scn = mk("", false);
        let mut tw = mk("t", true);
        scn.learn(b""); tw.learn(b"");
        scn.out.push(json!({"a" : "reset", "sc" : format!("real{}.{}", seed, k), "ord" : scn.ord, "clock" : "distinct", "real" : true}));
        for s in [&mut scn, &mut tw] { s.set_env("e0"); s.out.pop(); }      /* the model starts with this undeclared input */
        for s in [&mut scn, &mut tw] { s.set_rules(&rules); }
        if with_dir { for s in [&mut scn, &mut tw] { let _ = std::fs::create_dir_all(s.dir.join(DIRLEAF)); s.edit_in_dir("a", "S0"); s.edit_in_dir("b", "S0"); } }
        for l in &leaves { for s in [&mut scn, &mut tw] { s.edit(l, "S0"); } }
        if rng.chance(1, 2) { for s in [&mut scn, &mut tw] { s.edit("zz", "B0"); } }
        let steps = 4 + rng.below(7);
        let invoke = |scn : &mut RScn, tw : &mut RScn, rng : &mut Rng, is_build : bool, g : &str|
        {
            let sink = if rng.chance(1, 8) { 1 } else { 0 };
            let t = tw.invoke(is_build, g, None, 0);
            scn.invoke(is_build, g, if is_build { Some(t) } else { None }, sink);
        };
        let mut nlink = 0usize;
        for _ in 0..steps
        {
            match rng.below(if with_dir { 17 } else { 14 })
            {
                14 | 15 => { let n = ["a", "b"][rng.below(2)]; let c = format!("S{}", rng.below(3)); for s in [&mut scn, &mut tw] { s.edit_in_dir(n, &c); } },
                16 => { let n = ["a", "b"][rng.below(2)]; for s in [&mut scn, &mut tw] { s.recreate_in_dir(n); } },
                0..=3 => { let g = match rng.below(10) { 0..=5 => "".to_string(), 6 => "nosuch".to_string(), _ => targets[rng.below(targets.len())].clone() }; invoke(&mut scn, &mut tw, &mut rng, true, &g); },
                4 | 5 => { let g = if rng.chance(1, 2) { "".to_string() } else { targets[rng.below(targets.len())].clone() }; invoke(&mut scn, &mut tw, &mut rng, false, &g); },
                6 | 7 => { let l = &leaves[rng.below(leaves.len())]; let c = format!("S{}", rng.below(3)); for s in [&mut scn, &mut tw] { s.edit(l, &c); } },
                8 =>
                {
                    let t = &targets[rng.below(targets.len())]; let c = format!("J{}", rng.below(3));
                    let link = rng.chance(1, 4); nlink += 1;
                    for s in [&mut scn, &mut tw] { if s.dir.join(t).is_file() { if link { s.edit_link(t, &c, nlink); } else { s.edit(t, &c); } } }
                },
                9 => { let t = &targets[rng.below(targets.len())]; for s in [&mut scn, &mut tw] { if s.dir.join(t).is_file() { std::fs::remove_file(s.dir.join(t)).unwrap(); s.out.push(json!({"a" : "del", "p" : t})); pause(); } } },
                10 => { let k2 = rng.below(rules.len()); rules[k2].id = format!("c{}v{}", k2, rng.below(3)); if rng.chance(1, 3) { rules[k2].rev = !rules[k2].rev; } for s in [&mut scn, &mut tw] { s.set_rules(&rules); } },
                11 => { let t = &targets[rng.below(targets.len())]; for s in [&mut scn, &mut tw] { if s.dir.join("zz").is_file() && std::fs::rename(s.dir.join("zz"), s.dir.join(t)).is_ok() { s.out.push(json!({"a" : "mv", "p" : "zz", "q" : t})); pause(); } } },
                12 =>
                {   /* a workspace directory is removed with everything in it, or made again */
                    let dirs = scn.top_dirs();
                    if dirs.len() > 0
                    {
                        let d = dirs[rng.below(dirs.len())].clone();
                        if scn.removed.contains(&d) { for s in [&mut scn, &mut tw] { s.mkdir(&d); } } else { for s in [&mut scn, &mut tw] { s.rmdir(&d); } }
                    }
                },
                _ => { if with_env { let v = format!("e{}", rng.below(2)); for s in [&mut scn, &mut tw] { s.set_env(&v); } } },
            }
        }
        invoke(&mut scn, &mut tw, &mut rng, true, "");
        rank_stamps(&mut scn.out);
        all.extend(scn.out);
        for tag in ["", "t"] { let _ = std::fs::remove_dir_all(Path::new(base).join(format!("obs{}{}", k, tag))); let _ = std::fs::remove_dir_all(Path::new(base).join(format!("obs{}{}.xlog", k, tag))); }
    }
    all
}

/*  many independent rules with byte-identical outputs (copies of one source), the source flipped between two versions: in every build all
    of them move equal files onto one cache entry and compete for the one entry that holds the version they want back, in real threads */
fn wide_history(bin : &str, base : &str, k : usize, seed : u64, rng : &mut Rng) -> Vec<Value>
{
    let n = 16 + rng.below(12);
    let mut rules : Vec<XRule> = (0..n).map(|i| { let t = format!("w{:02}", i); let mut r = XRule::new(&[t.as_str()], &["l0"], "copy", &format!("c{}", i)); r.flat = true; r }).collect();
    if rng.chance(1, 2) { let i = rng.below(n); rules[i].x = true; }
    let mut ord : Vec<String> = rules.iter().map(|r| r.tg[0].clone()).collect(); ord.push("l0".to_string()); ord.push("zz".to_string()); ord.sort();
    let dir = Path::new(base).join(format!("wide{}", k));
    let _ = std::fs::remove_dir_all(&dir); std::fs::create_dir_all(&dir).unwrap();
    let mut scn = RScn{dir : dir.clone(), xlog : Path::new(base).join(format!("wide{}.xlog", k)), bin : bin.to_string(), rules : vec![], ord : ord,
        dict : BTreeMap::new(), rids : BTreeMap::new(), shs : BTreeMap::new(), out : vec![], run_toggle : false, quiet : false, removed : BTreeSet::new()};
    scn.learn(b"");
    scn.out.push(json!({"a" : "reset", "sc" : format!("wide{}.{}", seed, k), "ord" : scn.ord, "clock" : "distinct", "real" : true}));
    scn.set_env("e0"); scn.out.pop();
    scn.set_rules(&rules);
    scn.edit("l0", "S0");
    scn.invoke(true, "", None, 0);
    for round in 0..(5 + rng.below(4))
    {
        scn.edit("l0", if round % 2 == 0 { "S1" } else { "S0" });
        if rng.chance(1, 4) { scn.invoke(false, "", None, 0); }
        scn.invoke(true, "", None, 0);
    }
    rank_stamps(&mut scn.out);
    let _ = std::fs::remove_dir_all(&dir); let _ = std::fs::remove_dir_all(Path::new(base).join(format!("wide{}.xlog", k)));
    scn.out
}
