// Projection of the (virtual) disk to the specification's abstract state.  The two state files are
// decoded by an independent reader of their bincode layout, hashes are mapped back to content labels
// through the dictionary of every content the harness has ever written.
use std::collections::{BTreeMap, BTreeSet};
use serde_json::{json, Value, Map};
use crate::vsys::{VFileData, Fs};
use crate::sha256::{b62, ticket_of};

pub use crate::decode::*;

pub struct Names
{
    pub rids : BTreeMap<String, String>,   // rule ticket (base 62) -> rule id string of the specification
    pub shs : BTreeMap<String, String>,    // sources ticket (base 62) -> "H[c1|c2]"
}

impl Names
{
    pub fn new() -> Names { Names{rids : BTreeMap::new(), shs : BTreeMap::new()} }
    pub fn learn_sources(&mut self, contents : &Vec<String>)
    {
        self.shs.insert(sources_ticket(contents), format!("H[{}]", contents.join("|")));
    }
}

fn file_json(f : &VFileData, label : String, _rank : &BTreeMap<u64, usize>) -> Value
{
    json!({"c" : label, "m" : f.mtime, "x" : f.exec})
}

pub fn project(files : &BTreeMap<String, VFileData>, dirs : &BTreeSet<String>, fs : &Fs, names : &Names, ord : &Vec<String>) -> Value
{
    let dir = &fs.dir;
    let label = |data : &Vec<u8>| -> String { fs.label_of_ticket(&ticket_of(data)) };
    let table_path = format!("{}/current_file_states", dir);
    let table = files.get(&table_path).map(|f| decode_table(&f.data));

    /* ranks of all stamps (files, cache entries, table entries); 0 is "no stamp" */
    let mut stamps : BTreeSet<u64> = BTreeSet::new();
    let cache_pre = format!("{}/cache/", dir);
    let hist_pre = format!("{}/history/", dir);
    for (p, f) in files.iter()
    {
        if ord.contains(p) || p.starts_with(&cache_pre) { stamps.insert(f.mtime); }
    }
    if let Some(Some(t)) = &table { for (_, (_, m, _)) in t.iter() { if *m != 0 { stamps.insert(*m); } } }
    stamps.remove(&0);
    let rank : BTreeMap<u64, usize> = stamps.iter().enumerate().map(|(i, m)| (*m, i + 1)).collect();

    let mut ws = Map::new(); let mut cache = Map::new(); let mut hist = Map::new(); let mut htorn = vec![]; let mut other = vec![];
    for (p, f) in files.iter()
    {
        if let Some(name) = p.strip_prefix(&cache_pre)
        {
            cache.insert(fs.label_of_ticket(name), file_json(f, label(&f.data), &rank));
        }
        else if let Some(name) = p.strip_prefix(&hist_pre)
        {
            /* a rule's history is the file named by the rule's ticket; anything else in the directory is scratch space of ruler's (a temporary
               file on its way to be renamed) and is never read back */
            if !is_ticket_name(name) { continue; }
            let rid = names.rids.get(name).cloned().unwrap_or(format!("?{}", name));
            match decode_history(&f.data)
            {
                Some(h) =>
                {
                    let mut m = Map::new();
                    for (k, v) in h.iter()
                    {
                        let sh = names.shs.get(&b62(k)).cloned().unwrap_or(format!("?{}", b62(k)));
                        m.insert(sh, Value::Array(v.iter().map(|(t, _, _)| Value::String(fs.label_of_ticket(&b62(t)))).collect()));
                    }
                    hist.insert(rid, Value::Object(m));
                },
                None => htorn.push(rid),
            }
        }
        else if p.starts_with(&format!("{}/", dir)) { if *p != table_path && !is_scratch_of(p, &table_path) { other.push(p.clone()); } }
        else if ord.contains(p) { ws.insert(p.clone(), file_json(f, label(&f.data), &rank)); }
    }
    let mut fstab = Map::new();
    let tab = match &table
    {
        None => "absent",
        Some(None) => "torn",
        Some(Some(t)) =>
        {
            for (p, (h, m, x)) in t.iter()
            {
                fstab.insert(p.clone(), json!({"h" : fs.label_of_ticket(&b62(h)), "m" : m, "x" : x}));
            }
            "ok"
        },
    };
    let nodir : Vec<String> = ord.iter().filter(|p| match p.rfind('/') { Some(i) => !dirs.contains(&p[..i]), None => false }).cloned().collect();
    json!({"ws" : ws, "cache" : cache, "hist" : hist, "fstab" : fstab,
           "rdir" : {"root" : dirs.contains(dir), "cache" : dirs.contains(&format!("{}/cache", dir)), "hist" : dirs.contains(&format!("{}/history", dir)),
                     "tab" : tab, "htorn" : htorn, "nodir" : nodir},
           "other" : other})
}

/* the text form of a ticket: 43 characters 0-9 a-z A-Z */
pub fn is_ticket_name(name : &str) -> bool { name.len() == 43 && name.bytes().all(|c| c.is_ascii_alphanumeric()) }
/* a scratch file next to the table file: <table path> with a suffix */
fn is_scratch_of(p : &str, table_path : &str) -> bool { p.len() > table_path.len() && p.starts_with(table_path) }
