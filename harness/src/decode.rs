// Independent readers of ruler's state files (bincode layout) and the ticket computations of rules and source lists.
use std::collections::BTreeMap;
use crate::sha256::{sha256, ticket_of};

pub struct Rd<'a> { b : &'a [u8], p : usize }
impl<'a> Rd<'a>
{
    pub fn new(b : &'a [u8]) -> Rd<'a> { Rd{b : b, p : 0} }
    fn take(&mut self, n : usize) -> Option<&'a [u8]> { if self.p + n > self.b.len() { None } else { let s = &self.b[self.p..self.p + n]; self.p += n; Some(s) } }
    fn u64(&mut self) -> Option<u64> { let s = self.take(8)?; let mut a = [0u8; 8]; a.copy_from_slice(s); Some(u64::from_le_bytes(a)) }
    fn boolean(&mut self) -> Option<bool> { match self.take(1)?[0] { 0 => Some(false), 1 => Some(true), _ => None } }
    fn ticket(&mut self) -> Option<[u8; 32]> { let s = self.take(32)?; let mut a = [0u8; 32]; a.copy_from_slice(s); Some(a) }
    fn string(&mut self) -> Option<String> { let n = self.u64()? as usize; if n > self.b.len() { return None; } String::from_utf8(self.take(n)?.to_vec()).ok() }
    fn done(&self) -> bool { self.p == self.b.len() }
}

pub type FileStateT = ([u8; 32], u64, bool);

/*  current_file_states: HashMap<String, FileState{ticket : [u8; 32], timestamp : u64, executable : bool}> */
pub fn decode_table(bytes : &[u8]) -> Option<BTreeMap<String, FileStateT>>
{
    let mut r = Rd::new(bytes);
    let n = r.u64()?;
    if n > bytes.len() as u64 { return None; }
    let mut out = BTreeMap::new();
    for _ in 0..n
    {
        let path = r.string()?;
        let t = r.ticket()?; let m = r.u64()?; let x = r.boolean()?;
        out.insert(path, (t, m, x));
    }
    if r.done() { Some(out) } else { None }
}

/*  history/<rule>: HashMap<Ticket, FileStateVec{infos : Vec<FileState>}> */
pub fn decode_history(bytes : &[u8]) -> Option<BTreeMap<[u8; 32], Vec<FileStateT>>>
{
    let mut r = Rd::new(bytes);
    let n = r.u64()?;
    if n > bytes.len() as u64 { return None; }
    let mut out = BTreeMap::new();
    for _ in 0..n
    {
        let key = r.ticket()?;
        let k = r.u64()?;
        if k > bytes.len() as u64 { return None; }
        let mut v = vec![];
        for _ in 0..k { let t = r.ticket()?; let m = r.u64()?; let x = r.boolean()?; v.push((t, m, x)); }
        out.insert(key, v);
    }
    if r.done() { Some(out) } else { None }
}

/*  the sources-hash ruler computes: sha256 over the concatenated 32-byte hashes of the sources */
pub fn sources_ticket(contents : &Vec<String>) -> String
{
    let mut cat = vec![];
    for c in contents { cat.extend_from_slice(&sha256(c.as_bytes())); }
    ticket_of(&cat)
}

pub fn sources_ticket_bytes(contents : &Vec<Vec<u8>>) -> String
{
    let mut cat = vec![];
    for c in contents { cat.extend_from_slice(&sha256(c)); }
    ticket_of(&cat)
}

/*  the rule ticket ruler computes (Ticket::from_strings), re-implemented */
pub fn rule_ticket(tg : &Vec<String>, src : &Vec<String>, cl : &Vec<String>) -> String
{
    let mut s = String::new();
    for t in tg { s.push_str(t); s.push('\n'); }
    s.push_str("\n:\n");
    for t in src { s.push_str(t); s.push('\n'); }
    s.push_str("\n:\n");
    for t in cl { s.push_str(t); s.push('\n'); }
    s.push_str("\n:\n");
    ticket_of(s.as_bytes())
}

