// Inputs for the checks of property C15 (tickets): byte strings by length, 256-bit edge values, candidate text forms,
// pairs of directory trees.  Shared by the in-process driver (drv_ticket.rs) and the real-binary driver (drv_hash.rs);
// no dependence on ruler's own modules.
use serde_json::{json, Value};
use crate::gen::Rng;

pub const ALPHABET : &[u8; 62] = b"0123456789abcdefghijklmnopqrstuvwxyzABCDEFGHIJKLMNOPQRSTUVWXYZ";

pub fn chars_json(s : &str) -> Value { json!(s.chars().map(|c| c as u32).collect::<Vec<u32>>()) }

/* contents of length n: random, all zero, all 0xff, a counter, text - chosen by k */
pub fn content(rng : &mut Rng, n : usize, k : usize) -> Vec<u8>
{
    match k % 5
    {
        0 => (0..n).map(|_| rng.next() as u8).collect(),
        1 => vec![0u8; n],
        2 => vec![0xffu8; n],
        3 => (0..n).map(|i| (i % 251) as u8).collect(),
        _ => (0..n).map(|i| b"the quick brown fox\n"[i % 20]).collect(),
    }
}

/* the lengths of the property's quantifier: every length around the 256-byte read buffer and the 64-byte block boundaries */
pub fn lengths(thorough : bool, rng : &mut Rng) -> Vec<usize>
{
    let mut v : Vec<usize> = vec![];
    if thorough { v.extend(0..=1100); }
    else
    {
        v.extend(0..=130); v.extend(250..=262); v.extend(505..=520); v.extend(760..=775); v.extend(1017..=1030); v.extend(1090..=1100);
    }
    /* larger ones: around powers of two (64 KiB among them) and random */
    let big : &[usize] = if thorough { &[4095, 4096, 4097, 16384, 65535, 65536, 65537, 70000, 131072, 131073, 200000] } else { &[4096, 65536, 65537, 70001] };
    v.extend(big.iter());
    for _ in 0..(if thorough { 12 } else { 3 }) { v.push(1101 + rng.below(if thorough { 300000 } else { 20000 })); }
    v
}

fn le_add(a : &mut [u8; 32], mut carry : u32) { for b in a.iter_mut() { let s = *b as u32 + carry; *b = s as u8; carry = s >> 8; if carry == 0 { break; } } }
fn le_sub1(a : &mut [u8; 32]) { for b in a.iter_mut() { if *b == 0 { *b = 0xff; } else { *b -= 1; break; } } }
fn le_mul(a : &mut [u8; 32], m : u32) { let mut carry = 0u32; for b in a.iter_mut() { let s = *b as u32 * m + carry; *b = s as u8; carry = s >> 8; } }

/* 256-bit values as 32 little-endian bytes: edge values and random ones */
pub fn values(thorough : bool, rng : &mut Rng) -> Vec<[u8; 32]>
{
    let mut v : Vec<[u8; 32]> = vec![];
    v.push([0u8; 32]); v.push([0xffu8; 32]);
    for k in 0..256usize
    {   /* 2^k, 2^k - 1, 2^k + 1 */
        let mut p = [0u8; 32]; p[k / 8] = 1 << (k % 8);
        v.push(p);
        let mut m = p; le_sub1(&mut m); v.push(m);
        if thorough || k % 8 == 0 { let mut q = p; le_add(&mut q, 1); v.push(q); }
    }
    /* 62^k, 62^k - 1 (digit boundaries of the text form) */
    let mut p = [0u8; 32]; p[0] = 1;
    for _ in 0..42 { le_mul(&mut p, 62); v.push(p); let mut m = p; le_sub1(&mut m); v.push(m); }
    /* one non-zero byte at every position; runs of zero bytes inside non-zero surroundings, at every alignment */
    for i in 0..32 { let mut p = [0u8; 32]; p[i] = 0xa5; v.push(p); }
    for start in 0..29 { for len in [1usize, 3, 4, 8] { if start + len < 32 { let mut p = [0x5bu8; 32]; for j in start..start + len { p[j] = 0; } v.push(p); } } }
    for lo in 0..8 { for hi in (lo + 1)..8 { let mut p = [0u8; 32]; p[lo * 4] = 7; p[hi * 4 + 3] = 0x80; v.push(p); } }
    for _ in 0..(if thorough { 4000 } else { 300 })
    {
        let mut p = [0u8; 32];
        for b in p.iter_mut() { *b = rng.next() as u8; }
        /* sparse values now and then */
        if rng.chance(1, 4) { let z = rng.below(32); let l = 1 + rng.below(12); for j in z..(z + l).min(32) { p[j] = 0; } }
        if rng.chance(1, 8) { let top = rng.below(32); for j in top..32 { p[j] = 0; } }
        v.push(p);
    }
    v
}

pub fn encode62(bytes : &[u8; 32]) -> String
{   /* the harness' own base 62 (long division on bytes), least significant digit first */
    let mut be : Vec<u8> = bytes.iter().rev().cloned().collect();
    let mut out = String::new();
    for _ in 0..43
    {
        let mut rem = 0u32;
        for b in be.iter_mut() { let cur = rem * 256 + *b as u32; *b = (cur / 62) as u8; rem = cur % 62; }
        out.push(ALPHABET[rem as usize] as char);
    }
    out
}

/* foreign characters: ASCII punctuation and control, non-ASCII letters and digits, characters whose low byte is an ASCII digit or letter */
const FOREIGN : [char; 24] = ['-', '_', '/', '.', '+', '=', ' ', '\0', '\u{7f}', '@', '[', '`', '{', ':', 'é', '\u{130}', '\u{141}', '\u{430}', '\u{661}', '\u{ff10}', '\u{ff21}', '\u{1d7d8}', '\u{10330}', '\u{2161}'];

/* candidate text forms: (string, note) */
pub fn strings(thorough : bool, rng : &mut Rng) -> Vec<(String, &'static str)>
{
    let mut v : Vec<(String, &'static str)> = vec![];
    let vals = values(false, rng);
    for (i, val) in vals.iter().enumerate() { if thorough || i % 3 == 0 { v.push((encode62(val), "valid")); } }
    let max = encode62(&[0xffu8; 32]);
    /* just above 2^256 - 1: increment the digit string (least significant first) */
    let mut ds : Vec<usize> = max.bytes().map(|c| ALPHABET.iter().position(|a| *a == c).unwrap()).collect();
    for _ in 0..(if thorough { 200 } else { 40 })
    {
        let mut i = 0; loop { if i >= ds.len() { break; } if ds[i] == 61 { ds[i] = 0; i += 1; } else { ds[i] += 1; break; } }
        v.push((ds.iter().map(|d| ALPHABET[*d] as char).collect(), "above"));
    }
    /* the top digit raised, the top digits at their maximum, all-Z */
    for d in 0..62 { let mut s : Vec<u8> = max.bytes().collect(); s[42] = ALPHABET[d]; v.push((String::from_utf8(s).unwrap(), "top digit")); }
    for d in 0..62 { let mut s : Vec<u8> = vec![b'0'; 43]; s[42] = ALPHABET[d]; v.push((String::from_utf8(s).unwrap(), "top digit only")); }
    for d in 0..62 { let mut s : Vec<u8> = max.bytes().collect(); s[41] = ALPHABET[d]; v.push((String::from_utf8(s).unwrap(), "second digit")); }
    v.push(("Z".repeat(43), "all Z"));
    /* every length 0..60 over digits, and over a mixed alphabet */
    for n in 0..=60usize
    {
        v.push(((0..n).map(|_| ALPHABET[rng.below(62)] as char).collect(), "length"));
        v.push(("0".repeat(n), "zeros"));
        v.push(((0..n).map(|_| if rng.chance(1, 6) { FOREIGN[rng.below(FOREIGN.len())] } else { ALPHABET[rng.below(62)] as char }).collect(), "mixed"));
    }
    /* a valid text form with one character replaced by every foreign character, at a random and at the first / last position */
    for (k, f) in FOREIGN.iter().enumerate()
    {
        for pos in [0usize, 42, 1 + rng.below(41)]
        {
            let base = encode62(&vals[(k * 7 + pos) % vals.len()]);
            let s : String = base.chars().enumerate().map(|(i, c)| if i == pos { *f } else { c }).collect();
            v.push((s, "one foreign character"));
            /* the same with the string cut so that its length in bytes is 43 again */
            let mut t : String = base.chars().take(43 - f.len_utf8()).collect();
            t.insert(pos.min(t.chars().count()), *f);
            v.push((t, "43 bytes with a foreign character"));
        }
    }
    /* a valid text form with white space around it (44..60 bytes) */
    for (k, pad) in [" ", "\n", "\t", "\r\n", "  ", " \t\r\n"].iter().enumerate()
    {
        let base = encode62(&vals[(k * 11) % vals.len()]);
        v.push((format!("{}{}", base, pad), "valid, white space after"));
        v.push((format!("{}{}", pad, base), "valid, white space before"));
        v.push((format!("{}{}{}", pad, base, pad), "valid, white space around"));
    }
    for _ in 0..(if thorough { 3000 } else { 200 })
    {   /* random valid-looking strings of 43 digits: about half of those starting high overflow */
        let mut s : Vec<u8> = (0..43).map(|_| ALPHABET[rng.below(62)]).collect();
        if rng.chance(1, 2) { s[42] = ALPHABET[rng.below(3)]; }
        v.push((String::from_utf8(s).unwrap(), "random digits"));
    }
    v
}

#[derive(Clone, Debug, PartialEq)]
pub enum Node { File(String, Vec<u8>), Dir(String, Vec<Node>) }
impl Node
{
    pub fn name(&self) -> &String { match self { Node::File(n, _) => n, Node::Dir(n, _) => n } }
    pub fn to_json(&self) -> Value
    {
        match self
        {
            Node::File(n, b) => json!({"n" : n.as_bytes(), "k" : "f", "b" : b, "c" : []}),
            Node::Dir(n, c) => json!({"n" : n.as_bytes(), "k" : "d", "b" : [], "c" : c.iter().map(|x| x.to_json()).collect::<Vec<Value>>()}),
        }
    }
}
pub fn tree_json(t : &Vec<Node>) -> Value { json!(t.iter().map(|x| x.to_json()).collect::<Vec<Value>>()) }

const NAMES : [&str; 18] = ["a", "b", "ab", "a.b", "a-b", "a b", "c", "part-0.txt", "part-1.txt", "é", "z", "A", "a0", "0", "n.txt", "n.md", "n", "n.tar.gz"];
const BITS : [&[u8]; 8] = [b"", b"x", b"y", b"xy", b"x\n", b"\ny", b"a/b", b"\x00"];

fn gen_entries(rng : &mut Rng, depth : usize) -> Vec<Node>
{
    let n = rng.below(5);
    let mut out : Vec<Node> = vec![];
    for _ in 0..n
    {
        let name = NAMES[rng.below(NAMES.len())].to_string();
        if out.iter().any(|x| *x.name() == name) { continue; }
        if depth > 0 && rng.chance(1, 3) { out.push(Node::Dir(name, gen_entries(rng, depth - 1))); }
        else
        {
            let mut b : Vec<u8> = vec![];
            for _ in 0..rng.below(4) { b.extend_from_slice(BITS[rng.below(BITS.len())]); }
            out.push(Node::File(name, b));
        }
    }
    out
}

/* all directory paths (as index paths) of a tree, the root being [] */
fn dir_paths(t : &Vec<Node>, here : Vec<usize>, out : &mut Vec<Vec<usize>>)
{
    out.push(here.clone());
    for (i, x) in t.iter().enumerate() { if let Node::Dir(_, c) = x { let mut p = here.clone(); p.push(i); dir_paths(c, p, out); } }
}
fn dir_at<'a>(t : &'a mut Vec<Node>, path : &[usize]) -> &'a mut Vec<Node>
{
    if path.is_empty() { return t; }
    match &mut t[path[0]] { Node::Dir(_, c) => dir_at(c, &path[1..]), _ => panic!("not a directory") }
}

/* a second tree: the same, or the first with one change; returns (tree, what) */
pub fn mutate(rng : &mut Rng, t1 : &Vec<Node>) -> (Vec<Node>, &'static str)
{
    let mut t = t1.clone();
    let mut dirs = vec![]; dir_paths(&t, vec![], &mut dirs);
    let dp = dirs[rng.below(dirs.len())].clone();
    let d = dir_at(&mut t, &dp);
    let fresh = |d : &Vec<Node>, rng : &mut Rng| -> Option<String> { for _ in 0..8 { let n = NAMES[rng.below(NAMES.len())]; if !d.iter().any(|x| x.name() == n) { return Some(n.to_string()); } } None };
    let what : &'static str;
    match rng.below(14)
    {
        0 => { what = "same"; },
        1 => { d.reverse(); what = "same, other order of creation"; },
        2 => { if let Some(n) = fresh(d, rng) { d.push(Node::File(n, vec![])); what = "empty file added"; } else { what = "same"; } },
        3 => { if let Some(n) = fresh(d, rng) { d.push(Node::Dir(n, vec![])); what = "empty directory added"; } else { what = "same"; } },
        4 => { if !d.is_empty() { let i = rng.below(d.len()); d.remove(i); what = "entry removed"; } else { what = "same"; } },
        5 if rng.chance(1, 2) =>
        {   /* only the part after the last dot of a name changes */
            let c : Vec<usize> = (0..d.len()).filter(|i| d[*i].name().contains('.')).collect();
            if c.is_empty() { what = "same"; }
            else
            {
                let i = c[rng.below(c.len())];
                let old = d[i].name().clone();
                let stem = &old[..old.rfind('.').unwrap()];
                let new = format!("{}.{}", stem, ["md", "txt", "x", "gz"][rng.below(4)]);
                if new != old && !d.iter().any(|x| *x.name() == new) { match &mut d[i] { Node::File(m, _) => *m = new, Node::Dir(m, _) => *m = new }; what = "extension changed"; } else { what = "same"; }
            }
        },
        5 => { if !d.is_empty() { let i = rng.below(d.len()); if let Some(n) = fresh(d, rng) { match &mut d[i] { Node::File(m, _) => *m = n, Node::Dir(m, _) => *m = n }; what = "entry renamed"; } else { what = "same"; } } else { what = "same"; } },
        6 | 7 =>
        {   /* one byte of one file changed, appended or removed */
            let files : Vec<usize> = (0..d.len()).filter(|i| matches!(d[*i], Node::File(..))).collect();
            if files.is_empty() { what = "same"; }
            else if let Node::File(_, b) = &mut d[files[rng.below(files.len())]]
            {
                match rng.below(3)
                {
                    0 => { b.push(b"xy\n\0"[rng.below(4)]); what = "byte appended"; },
                    1 => { if b.is_empty() { b.push(b'x'); } else { b.pop(); } what = "byte removed (or added to an empty file)"; },
                    _ => { if b.is_empty() { b.push(0); } else { let i = rng.below(b.len()); b[i] ^= 1 << rng.below(8); } what = "bit flipped"; },
                }
            } else { what = "same"; }
        },
        8 =>
        {   /* bytes moved from the end of one file to the start of the next one in listing order: the concatenation stays the same */
            let mut files : Vec<usize> = (0..d.len()).filter(|i| matches!(d[*i], Node::File(..))).collect();
            files.sort_by(|a, b| d[*a].name().cmp(d[*b].name()));
            if files.len() < 2 { what = "same"; }
            else
            {
                let k = rng.below(files.len() - 1);
                let (i, j) = (files[k], files[k + 1]);
                let moved : Vec<u8> = if let Node::File(_, b) = &mut d[i] { if b.is_empty() { vec![] } else { let cut = rng.below(b.len()); b.split_off(cut) } } else { vec![] };
                if moved.is_empty() { if let Node::File(_, b) = &mut d[j] { if b.is_empty() { what = "same"; } else { let m : Vec<u8> = b.drain(..1).collect(); if let Node::File(_, a) = &mut d[i] { a.extend(m); } what = "byte moved to the previous file"; } } else { what = "same"; } }
                else { if let Node::File(_, b) = &mut d[j] { let mut nb = moved.clone(); nb.extend(b.iter()); *b = nb; } what = "bytes moved to the next file"; }
            }
        },
        9 =>
        {   /* the contents of two files exchanged */
            let files : Vec<usize> = (0..d.len()).filter(|i| matches!(d[*i], Node::File(..))).collect();
            if files.len() < 2 { what = "same"; }
            else
            {
                let (i, j) = (files[0], files[files.len() - 1]);
                let bi = if let Node::File(_, b) = &d[i] { b.clone() } else { vec![] };
                let bj = if let Node::File(_, b) = &d[j] { b.clone() } else { vec![] };
                if let Node::File(_, b) = &mut d[i] { *b = bj; }
                if let Node::File(_, b) = &mut d[j] { *b = bi; }
                what = "contents of two files exchanged";
            }
        },
        10 =>
        {   /* an empty file becomes an empty directory or the other way round */
            let c : Vec<usize> = (0..d.len()).filter(|i| match &d[*i] { Node::File(_, b) => b.is_empty(), Node::Dir(_, c) => c.is_empty() }).collect();
            if c.is_empty() { what = "same"; }
            else { let i = c[rng.below(c.len())]; d[i] = match &d[i] { Node::File(n, _) => Node::Dir(n.clone(), vec![]), Node::Dir(n, _) => Node::File(n.clone(), vec![]) }; what = "empty file <-> empty directory"; }
        },
        11 =>
        {   /* an entry moved into a sibling directory */
            let subs : Vec<usize> = (0..d.len()).filter(|i| matches!(d[*i], Node::Dir(..))).collect();
            if subs.is_empty() || d.len() < 2 { what = "same"; }
            else
            {
                let s = subs[rng.below(subs.len())];
                let mut i = rng.below(d.len()); if i == s { i = (i + 1) % d.len(); }
                let moved = d[i].clone();
                let ok = if let Node::Dir(_, c) = &d[s] { !c.iter().any(|x| x.name() == moved.name()) } else { false };
                if ok { if let Node::Dir(_, c) = &mut d[s] { c.push(moved); } d.remove(i); what = "entry moved into a sibling directory"; } else { what = "same"; }
            }
        },
        12 =>
        {   /* a directory replaced by its only entry's ... : dissolve a sub-directory into its parent */
            let subs : Vec<usize> = (0..d.len()).filter(|i| matches!(d[*i], Node::Dir(..))).collect();
            if subs.is_empty() { what = "same"; }
            else
            {
                let s = subs[rng.below(subs.len())];
                let inner = if let Node::Dir(_, c) = &d[s] { c.clone() } else { vec![] };
                if inner.iter().all(|x| !d.iter().any(|y| y.name() == x.name())) { d.remove(s); d.extend(inner); what = "sub-directory dissolved into its parent"; } else { what = "same"; }
            }
        },
        _ =>
        {   /* a byte moved between a file's name and ... no: a suffix of the name of the last file moved to the front of its content is a rename + edit */
            let files : Vec<usize> = (0..d.len()).filter(|i| matches!(d[*i], Node::File(..))).collect();
            if files.is_empty() { what = "same"; }
            else
            {
                let i = files[rng.below(files.len())];
                let taken : Vec<String> = d.iter().map(|x| x.name().clone()).collect();
                if let Node::File(n, b) = &mut d[i]
                {
                    if n.len() >= 2 && n.is_char_boundary(n.len() - 1) && !taken.contains(&n[..n.len() - 1].to_string())
                    { let last = n.pop().unwrap(); b.insert(0, last as u8); what = "last character of a name moved into the content"; } else { what = "same"; }
                } else { what = "same"; }
            }
        },
    }
    (t, what)
}

pub fn tree_pairs(n : usize, rng : &mut Rng) -> Vec<(Vec<Node>, Vec<Node>, &'static str)>
{
    let mut out = vec![];
    /* the empty directory against itself, against one with an empty file, one with an empty directory */
    out.push((vec![], vec![], "same"));
    out.push((vec![], vec![Node::File("a".to_string(), vec![])], "empty file added"));
    out.push((vec![], vec![Node::Dir("a".to_string(), vec![])], "empty directory added"));
    out.push((vec![Node::Dir("a".to_string(), vec![])], vec![Node::Dir("a".to_string(), vec![Node::Dir("b".to_string(), vec![])])], "empty directory added"));
    while out.len() < n
    {
        let t1 = gen_entries(rng, 2);
        let (t2, what) = mutate(rng, &t1);
        out.push((t1, t2, what));
    }
    out
}
