#![allow(dead_code)]
// The drivers that only run the real `ruler` binary (observation of the real file system, cache server): they use nothing of
// ruler's own modules, so they still build - and still judge the real binary - when an interface the in-process harness calls has changed.
mod sha256;
mod model;
mod gen;
mod decode;
mod drv_real;
mod drv_realobs;
mod gen_ticket;
mod drv_hash;

fn arg(args : &Vec<String>, key : &str, default : &str) -> String
{
    args.iter().position(|a| a == key).and_then(|i| args.get(i + 1)).cloned().unwrap_or(default.to_string())
}

fn main()
{
    let args : Vec<String> = std::env::args().collect();
    let cmd = args.get(1).cloned().unwrap_or_default();
    let n : usize = arg(&args, "--n", "5").parse().unwrap();
    let seed : u64 = arg(&args, "--seed", "1").parse().unwrap();
    let bin = arg(&args, "--bin", "/verif/harness/target/release/ruler_real");
    let base = arg(&args, "--dir", "/verif/work/realfs");
    match cmd.as_str()
    {
        "realobs" =>
        {
            let lines = drv_realobs::real_histories(&bin, &base, n, seed, &arg(&args, "--profile", "realfs"));
            gen::write_lines(&arg(&args, "--out", "trace.ndjson"), &lines);
            println!("{}", serde_json::json!({"scenarios" : n, "events" : lines.len(), "counts" : gen::counts(&lines)}));
        },
        "realfs" | "serve" =>
        {
            let recs = if cmd == "realfs" { drv_real::real_clean_build(&bin, &base, n, seed) } else { drv_real::real_serve(&bin, &base, n, seed) };
            gen::write_lines(&arg(&args, "--out", "records.ndjson"), &recs);
            println!("{}", serde_json::json!({"records" : recs.len()}));
        },
        "hash" =>
        {
            let recs = drv_hash::hash_cases(&bin, &base, arg(&args, "--thorough", "0") == "1", seed);
            gen::write_lines(&arg(&args, "--out", "records.ndjson"), &recs);
            println!("{}", serde_json::json!({"records" : recs.len()}));
        },
        _ => { eprintln!("usage: rvreal realobs|realfs|serve ..."); std::process::exit(2); },
    }
}
