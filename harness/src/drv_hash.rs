// Property C15 on the real binary: `ruler hash <path>` on files and directories of the real file system
// (RealSystem::open / list_dir / is_dir, the 256-byte read loop on real files, large files).  Same record format as
// drv_ticket.rs; judged by TLC with Ticket.tla.
use std::process::Command;
use std::fs;
use serde_json::{json, Value};
use crate::gen::Rng;
use crate::gen_ticket::{self, Node, chars_json};

fn ruler_hash(bin : &str, dir : &str, path : &str) -> Value
{
    let o = Command::new(bin).args(&["hash", path]).current_dir(dir).output().expect("run ruler hash");
    let out = String::from_utf8_lossy(&o.stdout).trim_end_matches('\n').to_string();
    let err = String::from_utf8_lossy(&o.stderr).trim().to_string();
    if o.status.success() && err.is_empty() && !out.is_empty() { json!({"ok" : true, "out" : chars_json(&out)}) }
    else { json!({"ok" : false, "out" : chars_json(&out), "err" : err, "status" : o.status.code()}) }
}

fn put_tree(base : &str, t : &Vec<Node>, reverse : bool)
{
    fs::create_dir_all(base).unwrap();
    let order : Vec<&Node> = if reverse { t.iter().rev().collect() } else { t.iter().collect() };
    for x in order
    {
        match x
        {
            Node::File(n, b) => fs::write(format!("{}/{}", base, n), b).unwrap(),
            Node::Dir(n, c) => put_tree(&format!("{}/{}", base, n), c, reverse),
        }
    }
}

fn age(path : &str, when : &str) { let _ = Command::new("touch").args(&["-d", when, path]).status(); }

pub fn hash_cases(bin : &str, base : &str, thorough : bool, seed : u64) -> Vec<Value>
{
    let mut rng = Rng::new(seed ^ 0xC15);
    let mut recs : Vec<Value> = vec![];
    let dir = format!("{}/c15.{}", base, seed);
    let _ = fs::remove_dir_all(&dir);
    fs::create_dir_all(format!("{}/sub/deeper", dir)).unwrap();
    /* files: a sample of the lengths (every fourth of the small ones; all of the large ones), at two paths, one of them aged */
    for (k, n) in gen_ticket::lengths(thorough, &mut rng).into_iter().enumerate()
    {
        if n <= 1100 && !(k % 4 == 0 || n % 64 == 0 || n % 64 == 55 || n % 64 == 56 || n % 256 <= 1 || n % 256 == 255) { continue; }
        let bytes = gen_ticket::content(&mut rng, n, if n > 1100 { 0 } else { k });
        let mut outs : Vec<Value> = vec![];
        for (j, rel) in ["f.bin", "sub/deeper/other name.dat"].iter().enumerate()
        {
            fs::write(format!("{}/{}", dir, rel), &bytes).unwrap();
            if j == 1 { age(&format!("{}/{}", dir, rel), "2001-02-03 04:05:06"); }
            let mut o = ruler_hash(bin, &dir, rel);
            o["via"] = json!(format!("ruler hash {}", rel)); o["fault"] = json!(false);
            outs.push(o);
        }
        recs.push(json!({"id" : format!("rfile.{}.{}", n, k), "kind" : "file", "bytes" : bytes, "outs" : outs}));
    }
    /* pairs of directory trees at one path: the first made, hashed, removed; the second made in the opposite order of creation and aged */
    for (k, (t1, t2, what)) in gen_ticket::tree_pairs(if thorough { 400 } else { 60 }, &mut rng).into_iter().enumerate()
    {
        let root = ["d", "sub/dir x"][k % 2];
        let full = format!("{}/{}", dir, root);
        let _ = fs::remove_dir_all(&full);
        put_tree(&full, &t1, false);
        let o1 = ruler_hash(bin, &dir, root);
        fs::remove_dir_all(&full).unwrap();
        put_tree(&full, &t2, true);
        if k % 3 == 0 { let _ = Command::new("find").args(&[&full, "-exec", "touch", "-d", "1999-01-01", "{}", "+"]).status(); }
        let o2 = ruler_hash(bin, &dir, root);
        fs::remove_dir_all(&full).unwrap();
        recs.push(json!({"id" : format!("rdir.{}", k), "kind" : "dirpair", "odd" : false, "root" : root.as_bytes(), "what" : what, "t1" : gen_ticket::tree_json(&t1), "t2" : gen_ticket::tree_json(&t2),
                         "ok1" : o1["ok"], "h1" : o1["out"], "ok2" : o2["ok"], "h2" : o2["out"]}));
    }
    /* a file whose name is not UTF-8 (Latin-1 "caf\xe9.txt") next to ordinary ones: ruler may refuse such a directory, but if it hashes it,
       the file counts like any other - changed, removed, renamed */
    {
        use std::os::unix::ffi::OsStrExt;
        let odd : &[u8] = b"caf\xe9.txt";
        let node = |name : &[u8], content : &[u8]| json!({"n" : name, "k" : "f", "b" : content, "c" : []});
        let variants : Vec<(Vec<(&[u8], &[u8])>, &str)> = vec![
            (vec![(b"a", b"x"), (odd, b"one")], "the oddly named file"),
            (vec![(b"a", b"x"), (odd, b"two")], "its content changed"),
            (vec![(b"a", b"x")], "it is gone"),
            (vec![(b"a", b"x"), (b"caf\xe8.txt", b"one")], "it is renamed")];
        let mut hashed : Vec<(Value, Value)> = vec![];
        for (ents, _) in variants.iter()
        {
            let full = format!("{}/odd", dir);
            let _ = fs::remove_dir_all(&full); fs::create_dir_all(&full).unwrap();
            /* a file system that refuses such names: no record */
            let mut made = true;
            for (n, c) in ents.iter() { if fs::write(std::path::Path::new(&full).join(std::ffi::OsStr::from_bytes(n)), c).is_err() { made = false; } }
            if !made { let _ = fs::remove_dir_all(&full); hashed.clear(); break; }
            let o = ruler_hash(bin, &dir, "odd");
            hashed.push((json!(ents.iter().map(|(n, c)| node(n, c)).collect::<Vec<Value>>()), o));
            let _ = fs::remove_dir_all(&full);
        }
        for i in 0..hashed.len() { for j in (i + 1)..hashed.len()
        {
            recs.push(json!({"id" : format!("rodd.{}.{}", i, j), "kind" : "dirpair", "odd" : true, "root" : "odd".as_bytes(), "what" : format!("{} / {}", variants[i].1, variants[j].1),
                             "t1" : hashed[i].0, "t2" : hashed[j].0, "ok1" : hashed[i].1["ok"], "h1" : hashed[i].1["out"], "ok2" : hashed[j].1["ok"], "h2" : hashed[j].1["out"]}));
        } }
    }
    let _ = fs::remove_dir_all(&dir);
    recs
}
