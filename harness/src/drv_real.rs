// Real file system, real `ruler` binary of the current tree (built with the guard off), shell commands:
// clean / build round trips (C10) and the cache server (C19).  Every observation becomes a record judged by TLC.
use std::collections::BTreeMap;
use std::io::{Read, Write};
use std::os::unix::fs::PermissionsExt;
use std::path::{Path, PathBuf};
use std::process::{Command, Stdio};
use serde_json::{json, Value};
use crate::gen::Rng;
use crate::sha256::{ticket_of, b62_wellformed, b62};
use crate::decode::{decode_history, rule_ticket, sources_ticket_bytes};

fn ruler(bin : &str, dir : &Path, args : &[&str]) -> (String, String)
{
    let o = Command::new(bin).args(args).current_dir(dir).output().expect("run ruler");
    (String::from_utf8_lossy(&o.stdout).to_string(), String::from_utf8_lossy(&o.stderr).to_string())
}

struct RRule { tg : Vec<&'static str>, src : Vec<&'static str>, cmd : &'static str }

fn rules_text(rules : &Vec<RRule>) -> String
{
    let mut s = String::new();
    for r in rules { for t in &r.tg { s.push_str(t); s.push('\n'); } s.push_str(":\n"); for t in &r.src { s.push_str(t); s.push('\n'); } s.push_str(":\n"); s.push_str(r.cmd); s.push_str("\n:\n\n"); }
    s
}

fn file_state(dir : &Path, p : &str) -> Value
{
    let path = dir.join(p);
    match std::fs::read(&path)
    {
        Ok(bytes) => { let x = std::fs::metadata(&path).map(|m| m.permissions().mode() & 0o111 != 0).unwrap_or(false); json!({"p" : p, "exists" : true, "sha" : ticket_of(&bytes), "x" : x}) },
        Err(_) => json!({"p" : p, "exists" : false, "sha" : "", "x" : false}),
    }
}

fn runs(dir : &Path) -> usize { std::fs::read_to_string(dir.join("runs.log")).map(|s| s.lines().count()).unwrap_or(0) }

fn scope(rules : &Vec<RRule>, goal : &str) -> Vec<String>
{
    if goal == "" { return rules.iter().flat_map(|r| r.tg.iter().map(|t| t.to_string())).collect(); }
    let mut out : Vec<String> = vec![]; let mut todo = vec![goal.to_string()];
    while let Some(p) = todo.pop() { for r in rules { if r.tg.contains(&p.as_str()) { for t in &r.tg { if !out.contains(&t.to_string()) { out.push(t.to_string()); } } for s in &r.src { todo.push(s.to_string()); } } } }
    out.sort(); out.dedup(); out
}

fn the_rules() -> Vec<RRule>
{
    vec![
        RRule{tg : vec!["a.out"], src : vec!["a.src"], cmd : "cp a.src a.out && echo a >> runs.log"},
        RRule{tg : vec!["b.out", "b.sh"], src : vec!["a.out", "b.src"], cmd : "cat a.out b.src > b.out && printf '#!/bin/sh\\necho %s\\n' \"$(cat b.src)\" > b.sh && chmod +x b.sh && echo b >> runs.log"},
        RRule{tg : vec!["c.out"], src : vec!["c.src"], cmd : "cp c.src c.out && echo c >> runs.log"},
        RRule{tg : vec!["d.out"], src : vec!["b.out", "c.out"], cmd : "cat b.out c.out > d.out && echo d >> runs.log"},
    ]
}

fn fresh_dir(base : &str, k : usize) -> PathBuf
{
    let d = Path::new(base).join(format!("ws{}", k));
    let _ = std::fs::remove_dir_all(&d);
    std::fs::create_dir_all(&d).unwrap();
    d
}

/* ------------------------------------------------------------------ C10 on the real file system */
pub fn real_clean_build(bin : &str, base : &str, n : usize, seed : u64) -> Vec<Value>
{
    let mut rng = Rng::new(seed);
    let rules = the_rules();
    let mut out = vec![];
    for k in 0..n
    {
        let dir = fresh_dir(base, k);
        std::fs::write(dir.join("build.rules"), rules_text(&rules)).unwrap();
        for s in ["a.src", "b.src", "c.src"] { std::fs::write(dir.join(s), format!("{}{}\n", s, rng.below(3))).unwrap(); }
        /* identical contents on purpose now and then: c.out == a.out */
        if rng.chance(1, 4) { let a = std::fs::read(dir.join("a.src")).unwrap(); std::fs::write(dir.join("c.src"), a).unwrap(); }
        let steps = 1 + rng.below(3);
        for _ in 0..steps
        {
            ruler(bin, &dir, &["build"]);
            if rng.chance(1, 2) { let s = ["a.src", "b.src", "c.src"][rng.below(3)]; std::fs::write(dir.join(s), format!("{}v{}\n", s, rng.below(4))).unwrap(); }
        }
        let (o1, e1) = ruler(bin, &dir, &["build"]);
        let built_ok = e1.trim() == "";
        let cgoal = ["", "", "d.out", "b.out", "c.out"][rng.below(5)];
        let bgoal = ["", "", "d.out", "b.sh"][rng.below(4)];
        let cscope = scope(&rules, cgoal);
        let all : Vec<String> = scope(&rules, "");
        let pre : Vec<Value> = all.iter().map(|p| file_state(&dir, p)).collect();
        let (_o2, e2) = if cgoal == "" { ruler(bin, &dir, &["clean"]) } else { ruler(bin, &dir, &["clean", cgoal]) };
        let cache : Vec<String> = std::fs::read_dir(dir.join(".ruler/cache")).map(|d| d.filter_map(|e| e.ok()).map(|e| e.file_name().to_string_lossy().to_string()).collect()).unwrap_or_default();
        /* every cache file must be named after its own bytes */
        let cache_named_ok = cache.iter().all(|nm| std::fs::read(dir.join(".ruler/cache").join(nm)).map(|b| ticket_of(&b) == *nm).unwrap_or(false));
        let mid : Vec<Value> = all.iter().map(|p| file_state(&dir, p)).collect();
        let r0 = runs(&dir);
        let (o3, e3) = if bgoal == "" { ruler(bin, &dir, &["build"]) } else { ruler(bin, &dir, &["build", bgoal]) };
        let post : Vec<Value> = all.iter().map(|p| file_state(&dir, p)).collect();
        out.push(json!({"id" : format!("rc{}.{}", seed, k), "kind" : "clean_build", "paths" : all, "clean_scope" : cscope, "build_scope" : scope(&rules, bgoal),
            "first_build_ok" : built_ok, "pre" : pre, "cache" : cache, "cache_named_ok" : cache_named_ok, "mid" : mid, "post" : post,
            "clean_err" : e2.trim(), "build_err" : e3.trim(), "runs_in_rebuild" : runs(&dir) - r0,
            "status_lines" : o3.lines().filter(|l| l.contains(':')).count(), "first_out_len" : o1.len()}));
        let _ = std::fs::remove_dir_all(&dir);
    }
    out
}

/* ------------------------------------------------------------------ C19: the cache server */
fn http_get(port : u16, path : &str) -> Option<(u16, Vec<u8>)>
{
    let mut s = std::net::TcpStream::connect(("127.0.0.1", port)).ok()?;
    s.set_read_timeout(Some(std::time::Duration::from_secs(5))).ok()?;
    write!(s, "GET {} HTTP/1.1\r\nHost: localhost\r\nConnection: close\r\n\r\n", path).ok()?;
    let mut buf = vec![];
    let _ = s.read_to_end(&mut buf);
    let pos = buf.windows(4).position(|w| w == b"\r\n\r\n")?;
    let head = String::from_utf8_lossy(&buf[..pos]).to_string();
    let status : u16 = head.split_whitespace().nth(1)?.parse().ok()?;
    let mut body = buf[pos + 4..].to_vec();
    if head.to_lowercase().contains("transfer-encoding: chunked")
    {
        let mut out = vec![]; let mut i = 0;
        loop
        {
            let e = match body[i..].windows(2).position(|w| w == b"\r\n") { Some(e) => e, None => break };
            let len = usize::from_str_radix(String::from_utf8_lossy(&body[i..i + e]).trim(), 16).unwrap_or(0);
            if len == 0 { break; }
            out.extend_from_slice(&body[i + e + 2..i + e + 2 + len]);
            i = i + e + 2 + len + 2;
        }
        body = out;
    }
    Some((status, body))
}

pub fn real_serve(bin : &str, base : &str, n : usize, seed : u64) -> Vec<Value>
{
    let mut rng = Rng::new(seed);
    let rules = the_rules();
    let mut out = vec![];
    for k in 0..n
    {
        let dir = fresh_dir(base, 1000 + k);
        std::fs::write(dir.join("build.rules"), rules_text(&rules)).unwrap();
        for s in ["a.src", "b.src", "c.src"] { std::fs::write(dir.join(s), format!("{}{}\n", s, rng.below(3))).unwrap(); }
        for _ in 0..(2 + rng.below(3))
        {
            ruler(bin, &dir, &["build"]);
            let s = ["a.src", "b.src", "c.src"][rng.below(3)]; std::fs::write(dir.join(s), format!("{}v{}\n", s, rng.below(4))).unwrap();
            if rng.chance(1, 3) { ruler(bin, &dir, &["clean"]); }
        }
        if rng.chance(1, 2) { ruler(bin, &dir, &["build"]); } else { ruler(bin, &dir, &["build", "a.out"]); }
        if rng.chance(1, 2) { ruler(bin, &dir, &["clean", "d.out"]); }
        std::fs::write(dir.join("secret.txt"), "outside the ruler directory\n").unwrap();
        /* a directory under a well-formed hash name in the cache (what a displaced directory target leaves there): not a cached file */
        let dname = ticket_of(b"a directory, not a file");
        let _ = std::fs::create_dir_all(dir.join(".ruler/cache").join(&dname));
        let _ = std::fs::write(dir.join(".ruler/cache").join(&dname).join("inner.txt"), "x");
        /* the first build may be restricted to one goal, so that some rules get their first history while the server is up */
        let partial = rng.chance(1, 2);
        /* what is on disk, decoded independently */
        let mut cache : BTreeMap<String, Vec<u8>> = BTreeMap::new();
        if let Ok(rd) = std::fs::read_dir(dir.join(".ruler/cache")) { for e in rd.filter_map(|e| e.ok()) { if let Ok(b) = std::fs::read(e.path()) { cache.insert(e.file_name().to_string_lossy().to_string(), b); } } }
        let mut hist : BTreeMap<String, BTreeMap<String, Vec<String>>> = BTreeMap::new();
        if let Ok(rd) = std::fs::read_dir(dir.join(".ruler/history")) { for e in rd.filter_map(|e| e.ok())
        {
            if let Some(h) = std::fs::read(e.path()).ok().and_then(|b| decode_history(&b))
            {
                hist.insert(e.file_name().to_string_lossy().to_string(), h.iter().map(|(k2, v)| (b62(k2), v.iter().map(|(t, _, _)| b62(t)).collect())).collect());
            }
        } }
        /* start the server */
        let mut port = 0u16; let mut child = None;
        for attempt in 0..6
        {
            let p = 21000 + ((seed as usize * 131 + k * 17 + attempt * 1009) % 20000) as u16;
            let mut c = Command::new(bin).args(&["serve", &p.to_string()]).current_dir(&dir).stdout(Stdio::null()).stderr(Stdio::null()).spawn().expect("spawn serve");
            let mut up = false;
            for _ in 0..50 { std::thread::sleep(std::time::Duration::from_millis(40)); if std::net::TcpStream::connect(("127.0.0.1", p)).is_ok() { up = true; break; } if let Ok(Some(_)) = c.try_wait() { break; } }
            if up { port = p; child = Some(c); break; }
            let _ = c.kill(); let _ = c.wait();
        }
        let mut child = match child { Some(c) => c, None => { out.push(json!({"id" : format!("sv{}.{}", seed, k), "kind" : "startup", "up" : false})); continue; } };
        let mut q = 0;
        let mut ask = |kind : &str, path : String, rec : Value, out : &mut Vec<Value>|
        {
            q += 1;
            let r = http_get(port, &path);
            let mut rec = rec;
            rec["id"] = json!(format!("sv{}.{}.{}", seed, k, q)); rec["kind"] = json!(kind); rec["path"] = json!(path);
            match r { Some((st, body)) => { rec["answered"] = json!(true); rec["status"] = json!(st); rec["body_sha"] = json!(ticket_of(&body)); rec["body_text"] = json!(String::from_utf8_lossy(&body[..body.len().min(400)]).to_string()); },
                      None => { rec["answered"] = json!(false); rec["status"] = json!(0); rec["body_sha"] = json!(""); rec["body_text"] = json!(""); } }
            out.push(rec);
        };
        for (name, bytes) in cache.iter()
        {
            ask("files", format!("/files/{}", name), json!({"wellformed" : b62_wellformed(name), "cached" : true, "want_sha" : ticket_of(bytes)}), &mut out);
        }
        let absent = [ticket_of(b"never cached"), ticket_of(format!("x{}", k).as_bytes()), ticket_of(b"a directory, not a file")];
        for name in absent.iter() { ask("files", format!("/files/{}", name), json!({"wellformed" : true, "cached" : cache.contains_key(name), "want_sha" : ""}), &mut out); }
        let some = cache.keys().next().cloned().unwrap_or(ticket_of(b"q"));
        let hostile = vec!["".to_string(), "abc".to_string(), format!("{}0", some), some[..42].to_string(), "Z".repeat(43), format!("{}!", &some[..42]),
            "..%2f..%2fsecret.txt".to_string(), "..%2Fhistory".to_string(), "%2e%2e%2f%2e%2e%2fbuild.rules".to_string(), format!("{}%00", some), "current_file_states".to_string(),
            format!("{}/extra", some), "%C3%A9".repeat(43)];
        for h in hostile.iter()
        {
            let served_secret = false;
            ask("files", format!("/files/{}", h), json!({"wellformed" : b62_wellformed(h), "cached" : cache.contains_key(h), "want_sha" : "", "hostile" : true, "served_secret" : served_secret}), &mut out);
        }
        for (rt, m) in hist.iter()
        {
            for (st, targets) in m.iter()
            {
                ask("rules", format!("/rules/{}/{}", rt, st), json!({"wellformed" : b62_wellformed(rt) && b62_wellformed(st), "recorded" : true, "want_text" : targets.join("\n")}), &mut out);
            }
            ask("rules", format!("/rules/{}/{}", rt, absent[0]), json!({"wellformed" : true, "recorded" : false, "want_text" : ""}), &mut out);
            ask("rules", format!("/rules/{}/{}", rt, "nothash"), json!({"wellformed" : false, "recorded" : false, "want_text" : ""}), &mut out);
        }
        ask("rules", format!("/rules/{}/{}", absent[1], absent[0]), json!({"wellformed" : true, "recorded" : false, "want_text" : ""}), &mut out);
        ask("rules", "/rules/..%2fcache/x".to_string(), json!({"wellformed" : false, "recorded" : false, "want_text" : "", "hostile" : true}), &mut out);
        /* the directory changes while the server is running: another ruler process builds with edited sources */
        let _ = partial;
        for round in 0..2
        {
            let s = ["a.src", "b.src", "c.src"][rng.below(3)]; std::fs::write(dir.join(s), format!("{}w{}.{}\n", s, round, rng.below(4))).unwrap();
            ruler(bin, &dir, &["build"]);
            if rng.chance(1, 2) { ruler(bin, &dir, &["clean", "d.out"]); }
            let mut cache2 : BTreeMap<String, Vec<u8>> = BTreeMap::new();
            if let Ok(rd) = std::fs::read_dir(dir.join(".ruler/cache")) { for e in rd.filter_map(|e| e.ok()) { if let Ok(b) = std::fs::read(e.path()) { cache2.insert(e.file_name().to_string_lossy().to_string(), b); } } }
            for (name, bytes) in cache2.iter() { ask("files", format!("/files/{}", name), json!({"wellformed" : b62_wellformed(name), "cached" : true, "want_sha" : ticket_of(bytes), "later" : true}), &mut out); }
            for (name, _) in cache.iter() { if !cache2.contains_key(name) { ask("files", format!("/files/{}", name), json!({"wellformed" : true, "cached" : false, "want_sha" : "", "later" : true}), &mut out); } }
            if let Ok(rd) = std::fs::read_dir(dir.join(".ruler/history")) { for e in rd.filter_map(|e| e.ok())
            {
                if let Some(h) = std::fs::read(e.path()).ok().and_then(|b| decode_history(&b))
                {
                    let rt = e.file_name().to_string_lossy().to_string();
                    for (k2, v) in h.iter()
                    {
                        let want = v.iter().map(|(t, _, _)| b62(t)).collect::<Vec<_>>().join("\n");
                        ask("rules", format!("/rules/{}/{}", rt, b62(k2)), json!({"wellformed" : true, "recorded" : true, "want_text" : want, "later" : true}), &mut out);
                    }
                }
            } }
        }
        /* still alive? */
        ask("alive", format!("/files/{}", absent[0]), json!({"wellformed" : true, "cached" : false, "want_sha" : ""}), &mut out);
        let _ = child.kill(); let _ = child.wait();
        let _ = std::fs::remove_dir_all(&dir);
    }
    let _ = (rule_ticket as fn(&Vec<String>, &Vec<String>, &Vec<String>) -> String, sources_ticket_bytes as fn(&Vec<Vec<u8>>) -> String);
    out
}
