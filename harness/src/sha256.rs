// Independent SHA-256 and base-62 (no code from the crate under test).
const K : [u32; 64] = [
0x428a2f98,0x71374491,0xb5c0fbcf,0xe9b5dba5,0x3956c25b,0x59f111f1,0x923f82a4,0xab1c5ed5,0xd807aa98,0x12835b01,0x243185be,0x550c7dc3,0x72be5d74,0x80deb1fe,0x9bdc06a7,0xc19bf174,
0xe49b69c1,0xefbe4786,0x0fc19dc6,0x240ca1cc,0x2de92c6f,0x4a7484aa,0x5cb0a9dc,0x76f988da,0x983e5152,0xa831c66d,0xb00327c8,0xbf597fc7,0xc6e00bf3,0xd5a79147,0x06ca6351,0x14292967,
0x27b70a85,0x2e1b2138,0x4d2c6dfc,0x53380d13,0x650a7354,0x766a0abb,0x81c2c92e,0x92722c85,0xa2bfe8a1,0xa81a664b,0xc24b8b70,0xc76c51a3,0xd192e819,0xd6990624,0xf40e3585,0x106aa070,
0x19a4c116,0x1e376c08,0x2748774c,0x34b0bcb5,0x391c0cb3,0x4ed8aa4a,0x5b9cca4f,0x682e6ff3,0x748f82ee,0x78a5636f,0x84c87814,0x8cc70208,0x90befffa,0xa4506ceb,0xbef9a3f7,0xc67178f2];

pub fn sha256(data : &[u8]) -> [u8; 32]
{
    let mut h : [u32; 8] = [0x6a09e667,0xbb67ae85,0x3c6ef372,0xa54ff53a,0x510e527f,0x9b05688c,0x1f83d9ab,0x5be0cd19];
    let mut msg = data.to_vec();
    let bitlen = (data.len() as u64) * 8;
    msg.push(0x80);
    while msg.len() % 64 != 56 { msg.push(0); }
    msg.extend_from_slice(&bitlen.to_be_bytes());
    for chunk in msg.chunks(64)
    {
        let mut w = [0u32; 64];
        for i in 0..16 { w[i] = u32::from_be_bytes([chunk[4*i], chunk[4*i+1], chunk[4*i+2], chunk[4*i+3]]); }
        for i in 16..64
        {
            let s0 = w[i-15].rotate_right(7) ^ w[i-15].rotate_right(18) ^ (w[i-15] >> 3);
            let s1 = w[i-2].rotate_right(17) ^ w[i-2].rotate_right(19) ^ (w[i-2] >> 10);
            w[i] = w[i-16].wrapping_add(s0).wrapping_add(w[i-7]).wrapping_add(s1);
        }
        let (mut a, mut b, mut c, mut d, mut e, mut f, mut g, mut hh) = (h[0],h[1],h[2],h[3],h[4],h[5],h[6],h[7]);
        for i in 0..64
        {
            let s1 = e.rotate_right(6) ^ e.rotate_right(11) ^ e.rotate_right(25);
            let ch = (e & f) ^ ((!e) & g);
            let t1 = hh.wrapping_add(s1).wrapping_add(ch).wrapping_add(K[i]).wrapping_add(w[i]);
            let s0 = a.rotate_right(2) ^ a.rotate_right(13) ^ a.rotate_right(22);
            let maj = (a & b) ^ (a & c) ^ (b & c);
            let t2 = s0.wrapping_add(maj);
            hh = g; g = f; f = e; e = d.wrapping_add(t1); d = c; c = b; b = a; a = t1.wrapping_add(t2);
        }
        h[0]=h[0].wrapping_add(a); h[1]=h[1].wrapping_add(b); h[2]=h[2].wrapping_add(c); h[3]=h[3].wrapping_add(d);
        h[4]=h[4].wrapping_add(e); h[5]=h[5].wrapping_add(f); h[6]=h[6].wrapping_add(g); h[7]=h[7].wrapping_add(hh);
    }
    let mut out = [0u8; 32];
    for i in 0..8 { out[4*i..4*i+4].copy_from_slice(&h[i].to_be_bytes()); }
    out
}

const ALPHA : &[u8; 62] = b"0123456789abcdefghijklmnopqrstuvwxyzABCDEFGHIJKLMNOPQRSTUVWXYZ";

/*  43 base-62 digits, least significant first, of the 256-bit little-endian integer */
pub fn b62(bytes : &[u8; 32]) -> String
{
    let mut n : Vec<u32> = (0..8).map(|i| u32::from_le_bytes([bytes[4*i], bytes[4*i+1], bytes[4*i+2], bytes[4*i+3]])).collect(); // little-endian limbs
    let mut out = vec![b'0'; 43];
    for k in 0..43
    {
        let mut rem : u64 = 0;
        for i in (0..8).rev()
        {
            let cur = (rem << 32) | (n[i] as u64);
            n[i] = (cur / 62) as u32;
            rem = cur % 62;
        }
        out[k] = ALPHA[rem as usize];
    }
    String::from_utf8(out).unwrap()
}

pub fn ticket_of(data : &[u8]) -> String { b62(&sha256(data)) }

pub fn hex(bytes : &[u8]) -> String { bytes.iter().map(|b| format!("{:02x}", b)).collect() }

/*  is `s` the 43-character base-62 encoding of a value below 2^256?  (independent of the crate's decoder) */
pub fn b62_wellformed(s : &str) -> bool
{
    if s.len() != 43 || !s.bytes().all(|b| ALPHA.contains(&b)) { return false; }
    let mut n = [0u32; 9];      // little-endian limbs, one spare for overflow
    for b in s.bytes().rev()
    {
        let d = ALPHA.iter().position(|a| *a == b).unwrap() as u64;
        let mut carry = d;
        for limb in n.iter_mut() { let cur = (*limb as u64) * 62 + carry; *limb = cur as u32; carry = cur >> 32; }
        if carry != 0 { return false; }
    }
    n[8] == 0
}
