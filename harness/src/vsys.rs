// Instrumented in-memory System.  Every call is observed; calls on the cache directory and
// execute_command are scheduling points of the shim; every mutating call can be snapshotted
// (crash points).  Error variants follow RealSystem, not the crate's FakeSystem.
use std::collections::{BTreeMap, BTreeSet};
use std::io;
use std::sync::{Arc, Mutex};
use std::time::{Duration, SystemTime};
use serde_json::{json, Value};

use crate::system::{System, SystemError, CommandScript, CommandLineOutput};
use crate::verif_shim::{self as shim, Op};
use crate::model::{XRule, parse_vcmd, out_content};
use crate::sha256::ticket_of;

#[derive(Clone, Debug)]
pub struct VFileData { pub data : Arc<Vec<u8>>, pub mtime : u64, pub exec : bool }

#[derive(Clone)]
pub struct Snap
{
    pub label : String,
    pub files : BTreeMap<String, VFileData>,
    pub dirs : BTreeSet<String>,
    pub inexec : String,
    pub clock : u64,
    pub takes : Vec<(String, String)>,
}

#[derive(Default)]
pub struct Fs
{
    pub files : BTreeMap<String, VFileData>,
    pub dirs : BTreeSet<String>,
    pub clock : u64,
    pub tick_mode : bool,
    pub env : String,
    pub events : Vec<Value>,
    pub quiet : bool,
    pub names : Vec<String>,
    pub rules : Vec<XRule>,
    pub in_command : Option<String>,
    pub touched : BTreeSet<String>,
    pub overw : Vec<String>,
    pub takes : Vec<(String, String)>,
    pub snap_on : bool,
    pub snaps : Vec<Snap>,
    pub nmut : usize,
    pub dict : BTreeMap<String, String>,     // base62(sha256(bytes)) -> label of the content
    pub dir : String,
}

impl std::fmt::Debug for Fs { fn fmt(&self, f : &mut std::fmt::Formatter) -> std::fmt::Result { write!(f, "Fs") } }

impl Fs
{
    fn now(&mut self) -> u64 { if !self.tick_mode { self.clock += 1; } self.clock }

    pub fn learn(&mut self, bytes : &[u8], label : Option<String>)
    {
        let key = ticket_of(bytes);
        let l = label.unwrap_or_else(|| String::from_utf8_lossy(bytes).to_string());
        self.dict.entry(key).or_insert(l);
    }

    fn mutated(&mut self, label : String)
    {
        self.nmut += 1;
        if self.snap_on
        {
            let inexec = self.in_command.clone().unwrap_or_default();
            let s = Snap{label : label, files : self.files.clone(), dirs : self.dirs.clone(), inexec : inexec, clock : self.clock, takes : self.takes.clone()};
            self.snaps.push(s);
        }
    }

    /*  a mutation issued by ruler itself (not from inside a command) on a path outside the ruler directory */
    fn touch(&mut self, path : &str)
    {
        if self.in_command.is_none() && !path.starts_with(&format!("{}/", self.dir)) && path != self.dir
        {
            self.touched.insert(path.to_string());
        }
    }

    fn name_of(&self, tid : usize) -> String
    {
        if tid == 0 { "main".to_string() } else { self.names.get(tid - 1).cloned().unwrap_or(format!("?t{}", tid)) }
    }

    pub fn label_of_ticket(&self, b62 : &str) -> String
    {
        self.dict.get(b62).cloned().unwrap_or(format!("?{}", b62))
    }

    fn emit(&mut self, v : Value) { if !self.quiet { self.events.push(v); } }
}

#[derive(Clone)]
pub struct VSystem { pub fs : Arc<Mutex<Fs>>, pub dir : String }

#[derive(Debug)]
pub struct VFile { fs : Arc<Mutex<Fs>>, path : String, snapshot : Arc<Vec<u8>>, pos : usize, nreads : usize }

impl io::Read for VFile
{
    fn read(&mut self, buf : &mut [u8]) -> io::Result<usize>
    {
        /* short reads (allowed by std::io::Read; network and FUSE file systems produce them): the 1st and 3rd read of a file
           return at most 3 and 7 bytes, the others whatever fits */
        let cap = match self.nreads { 0 => 3, 2 => 7, _ => usize::MAX };
        self.nreads += 1;
        let n = std::cmp::min(std::cmp::min(buf.len(), cap), self.snapshot.len() - self.pos);
        buf[..n].copy_from_slice(&self.snapshot[self.pos..self.pos + n]);
        self.pos += n;
        Ok(n)
    }
}

impl io::Write for VFile
{
    fn write(&mut self, buf : &[u8]) -> io::Result<usize>
    {
        let mut fs = self.fs.lock().unwrap();
        if !fs.files.contains_key(&self.path) { return Err(io::Error::new(io::ErrorKind::NotFound, "gone")); }
        let now = fs.now();
        let base = (*fs.files.get(&self.path).unwrap().data).clone();
        if fs.snap_on && buf.len() >= 2
        {
            /* one torn prefix per write */
            let k = buf.len() / 2;
            let mut data = base.clone(); data.extend_from_slice(&buf[..k]);
            let mut full = base.clone(); full.extend_from_slice(buf);
            let label = format!("T[{}]", String::from_utf8_lossy(&full));
            fs.learn(&data, Some(label));
            { let file = fs.files.get_mut(&self.path).unwrap(); file.data = Arc::new(data); file.mtime = now; }
            let p = self.path.clone();
            fs.mutated(format!("torn {}", p));
            fs.nmut -= 1;
        }
        let mut data = base; data.extend_from_slice(buf);
        fs.learn(&data, None);
        { let file = fs.files.get_mut(&self.path).unwrap(); file.data = Arc::new(data); file.mtime = now; }
        let p = self.path.clone();
        fs.mutated(format!("write {}", p));
        Ok(buf.len())
    }
    fn flush(&mut self) -> io::Result<()> { Ok(()) }
}

fn parent(path : &str) -> String
{
    match path.rfind('/') { Some(i) => path[..i].to_string(), None => "".to_string() }
}

impl VSystem
{
    pub fn new(dir : &str, tick_mode : bool) -> VSystem
    {
        let mut fs = Fs::default();
        fs.clock = 1;
        fs.tick_mode = tick_mode;
        fs.env = "e0".to_string();
        fs.dirs.insert("".to_string());
        fs.dir = dir.to_string();
        fs.learn(b"", None);
        VSystem{fs : Arc::new(Mutex::new(fs)), dir : dir.to_string()}
    }

    /*  independent copy (same content, no sharing of later changes) */
    pub fn fork(&self, quiet : bool) -> VSystem
    {
        let fs = self.fs.lock().unwrap();
        let mut n = Fs::default();
        n.files = fs.files.clone(); n.dirs = fs.dirs.clone(); n.clock = fs.clock; n.tick_mode = fs.tick_mode;
        n.env = fs.env.clone(); n.rules = fs.rules.clone(); n.dict = fs.dict.clone(); n.dir = fs.dir.clone();
        n.quiet = quiet;
        VSystem{fs : Arc::new(Mutex::new(n)), dir : self.dir.clone()}
    }

    pub fn from_snap(&self, snap : &Snap) -> VSystem
    {
        let v = self.fork(false);
        { let mut fs = v.fs.lock().unwrap(); fs.files = snap.files.clone(); fs.dirs = snap.dirs.clone(); fs.clock = snap.clock + 1; }
        v
    }

    fn shared(&self, path : &str) -> bool { path.starts_with(&format!("{}/cache/", self.dir)) }

    fn gate(&self, kind : &str, a : &str, b : &str)
    {
        if self.shared(a) || self.shared(b) || kind == "exec"
        {
            shim::yield_op(Op::new(kind, a, b));
        }
    }

    fn who(&self) -> usize { shim::current_thread().unwrap_or(0) }

    /* ---- driver-side (user-level) operations ---- */
    pub fn tick(&self) { self.fs.lock().unwrap().clock += 1; }
    pub fn put(&self, path : &str, content : &str)
    {
        let mut fs = self.fs.lock().unwrap();
        let now = if fs.tick_mode { fs.clock } else { fs.clock += 1; fs.clock };
        fs.learn(content.as_bytes(), None);
        let exec = fs.files.get(path).map(|f| f.exec).unwrap_or(false);
        fs.files.insert(path.to_string(), VFileData{data : Arc::new(content.as_bytes().to_vec()), mtime : now, exec : exec});
    }
    pub fn get(&self, path : &str) -> Option<String>
    {
        self.fs.lock().unwrap().files.get(path).map(|f| String::from_utf8_lossy(&f.data).to_string())
    }
    pub fn exists(&self, path : &str) -> bool { self.fs.lock().unwrap().files.contains_key(path) }
    pub fn remove(&self, path : &str) -> bool { self.fs.lock().unwrap().files.remove(path).is_some() }
    pub fn remove_tree(&self, prefix : &str)
    {
        let mut fs = self.fs.lock().unwrap();
        let pre = format!("{}/", prefix);
        fs.files.retain(|p, _| !(p == prefix || p.starts_with(&pre)));
        fs.dirs.retain(|p| !(p == prefix || p.starts_with(&pre)));
    }
    pub fn list(&self, prefix : &str) -> Vec<String>
    {
        let pre = format!("{}/", prefix);
        self.fs.lock().unwrap().files.keys().filter(|p| p.starts_with(&pre)).cloned().collect()
    }
    pub fn set_env(&self, v : &str) { self.fs.lock().unwrap().env = v.to_string(); }
    pub fn set_rules(&self, rules : &Vec<XRule>) { self.fs.lock().unwrap().rules = rules.clone(); }
    pub fn emit(&self, v : Value) { self.fs.lock().unwrap().emit(v); }
    pub fn take_events(&self) -> Vec<Value> { std::mem::take(&mut self.fs.lock().unwrap().events) }
}

impl System for VSystem
{
    type File = VFile;

    fn open(&self, path : &str) -> Result<VFile, SystemError>
    {
        self.gate("open", path, "");
        let fs = self.fs.lock().unwrap();
        match fs.files.get(path)
        {
            Some(file) => Ok(VFile{fs : self.fs.clone(), path : path.to_string(), snapshot : file.data.clone(), pos : 0, nreads : 0}),
            None => Err(SystemError::NotFound),
        }
    }

    fn create_file(&mut self, path : &str) -> Result<VFile, SystemError>
    {
        self.gate("create", path, "");
        let mut fs = self.fs.lock().unwrap();
        if !fs.dirs.contains(&parent(path)) { return Err(SystemError::NotFound); }
        if fs.dirs.contains(path) { return Err(SystemError::Weird); }
        let now = fs.now();
        let exec = fs.files.get(path).map(|f| f.exec).unwrap_or(false);
        if fs.in_command.is_none()
        {
            if let Some(old) = fs.files.get(path)
            {
                if old.data.len() > 0 && !path.starts_with(&format!("{}/", self.dir)) { fs.overw.push(format!("create over {}", path)); }
            }
        }
        fs.touch(path);
        fs.files.insert(path.to_string(), VFileData{data : Arc::new(vec![]), mtime : now, exec : exec});
        fs.mutated(format!("create {}", path));
        Ok(VFile{fs : self.fs.clone(), path : path.to_string(), snapshot : Arc::new(vec![]), pos : 0, nreads : 0})
    }

    fn create_dir(&mut self, path : &str) -> Result<(), SystemError>
    {
        let mut fs = self.fs.lock().unwrap();
        if fs.files.contains_key(path) || fs.dirs.contains(path) { return Err(SystemError::Weird); }
        if !fs.dirs.contains(&parent(path)) { return Err(SystemError::NotFound); }
        fs.dirs.insert(path.to_string());
        fs.touch(path);
        fs.mutated(format!("mkdir {}", path));
        Ok(())
    }

    fn is_dir(&self, path : &str) -> bool { self.fs.lock().unwrap().dirs.contains(path) }

    fn is_file(&self, path : &str) -> bool
    {
        self.gate("is_file", path, "");
        let mut fs = self.fs.lock().unwrap();
        let result = fs.files.contains_key(path);
        if self.shared(path)
        {
            let t = fs.name_of(self.who());
            let n = fs.label_of_ticket(&path[self.dir.len() + 7..]);
            fs.emit(json!({"a" : "step", "t" : t, "op" : "chk", "n" : n, "r" : result}));
        }
        result
    }

    fn list_dir(&self, _path : &str) -> Result<Vec<String>, SystemError> { Err(SystemError::NotImplemented) }

    fn rename(&mut self, from : &str, to : &str) -> Result<(), SystemError>
    {
        self.gate("rename", from, to);
        let mut fs = self.fs.lock().unwrap();
        let t = fs.name_of(self.who());
        let into_cache = self.shared(to);
        let from_cache = self.shared(from);
        let result =
        if !fs.dirs.contains(&parent(to)) || !fs.files.contains_key(from) { Err(SystemError::NotFound) }
        else
        {
            let file = fs.files.remove(from).unwrap();
            if fs.in_command.is_none()
            {
                if let Some(old) = fs.files.get(to)
                {
                    let state_file = to.starts_with(&format!("{}/", self.dir)) && !into_cache;
                    if *old.data != *file.data && !state_file { fs.overw.push(format!("rename {} over {}", from, to)); }
                }
            }
            fs.files.insert(to.to_string(), file);
            fs.touch(from); fs.touch(to);
            fs.mutated(format!("rename {} -> {}", from, to));
            Ok(())
        };
        if into_cache
        {
            let n = fs.label_of_ticket(&to[self.dir.len() + 7..]);
            fs.emit(json!({"a" : "step", "t" : t, "op" : "bak", "p" : from, "n" : n, "ok" : result.is_ok()}));
        }
        else if from_cache
        {
            let n = fs.label_of_ticket(&from[self.dir.len() + 7..]);
            if result.is_ok() { fs.takes.push((to.to_string(), n.clone())); }
            fs.emit(json!({"a" : "step", "t" : t, "op" : "take", "p" : to, "n" : n, "ok" : result.is_ok()}));
        }
        result
    }

    fn get_modified(&self, path : &str) -> Result<SystemTime, SystemError>
    {
        match self.fs.lock().unwrap().files.get(path)
        {
            Some(file) => Ok(SystemTime::UNIX_EPOCH + Duration::from_micros(file.mtime)),
            None => Err(SystemError::MetadataNotFound),
        }
    }

    fn is_executable(&self, path : &str) -> Result<bool, SystemError>
    {
        match self.fs.lock().unwrap().files.get(path) { Some(file) => Ok(file.exec), None => Err(SystemError::MetadataNotFound) }
    }

    fn set_is_executable(&mut self, path : &str, executable : bool) -> Result<(), SystemError>
    {
        let mut fs = self.fs.lock().unwrap();
        match fs.files.get_mut(path)
        {
            Some(file) => { file.exec = executable; },
            None => return Err(SystemError::MetadataNotFound),
        }
        fs.touch(path);
        fs.mutated(format!("chmod {}", path));
        Ok(())
    }

    /*  command language: see model.rs */
    fn execute_command(&mut self, script : CommandScript) -> Vec<Result<CommandLineOutput, SystemError>>
    {
        self.gate("exec", "", "");
        let good = || CommandLineOutput{out : "".to_string(), err : "".to_string(), code : Some(0), success : true};
        let bad = || CommandLineOutput{out : "".to_string(), err : "failed".to_string(), code : Some(1), success : false};
        let mut out = vec![];
        let (t, env, rules) = { let fs = self.fs.lock().unwrap(); (fs.name_of(self.who()), fs.env.clone(), fs.rules.clone()) };
        let mut rid = String::new();
        let mut seen : Vec<String> = vec![];
        let mut targets : Vec<String> = vec![];
        let mut all_ok = true;
        for line in script.lines.iter()
        {
            let cmd = match parse_vcmd(line) { Some(cmd) => cmd, None => { out.push(Ok(bad())); all_ok = false; continue; } };
            if cmd.kind == "false" { out.push(Ok(bad())); all_ok = false; continue; }
            if cmd.kind == "killed" { out.push(Ok(CommandLineOutput{out : "".to_string(), err : "killed".to_string(), code : None, success : false})); all_ok = false; continue; }
            /* the rule this command belongs to: the one with exactly these targets */
            for r in rules.iter() { if r.tg == cmd.tg { rid = r.rid(); } }
            if rid == "" { rid = format!("?{}", line); }
            targets = cmd.tg.clone();
            self.fs.lock().unwrap().in_command = Some(rid.clone());
            seen = cmd.src.iter().map(|s| self.get(s).unwrap_or("MISSING".to_string())).collect();
            if cmd.kind == "kill"
            {
                out.push(Ok(CommandLineOutput{out : "".to_string(), err : "killed".to_string(), code : None, success : false})); all_ok = false;
                self.fs.lock().unwrap().in_command = None;
                continue;
            }
            /* like a shell redirection into a directory that is not there: the command fails before it writes anything */
            let nodir = { let fs = self.fs.lock().unwrap(); cmd.tg.iter().any(|p| !fs.dirs.contains(&parent(p))) };
            if cmd.kind == "fail" || nodir || seen.iter().any(|c| c == "MISSING")
            {
                out.push(Ok(bad())); all_ok = false;
                self.fs.lock().unwrap().in_command = None;
                continue;
            }
            for (i, tpath) in cmd.tg.iter().enumerate()
            {
                if i + 1 == cmd.omit { continue; }
                let content = out_content(&cmd, i + 1, &seen, &env);
                use std::io::Write;
                let mut sys = self.clone();
                match sys.create_file(tpath)
                {
                    Ok(mut file) => { let _ = file.write_all(content.as_bytes()); },
                    Err(_) => { all_ok = false; },
                }
                if cmd.x { let _ = sys.set_is_executable(tpath, true); }
            }
            self.fs.lock().unwrap().in_command = None;
            out.push(Ok(good()));
        }
        let outs : Vec<String> = targets.iter().map(|p| self.get(p).unwrap_or("MISSING".to_string())).collect();
        self.fs.lock().unwrap().emit(json!({"a" : "step", "t" : t, "op" : "exec", "rid" : rid, "seen" : seen, "ok" : all_ok, "outs" : outs}));
        out
    }
}
