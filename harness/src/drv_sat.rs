// Satellite drivers: pure components of ruler run on enumerated / random inputs; every (input, output)
// pair is written as one JSON record and judged by TLC against the corresponding oracle specification.
use std::collections::BTreeSet;
use serde_json::{json, Value};
use crate::rule::Rule;
use crate::sort::{topological_sort, topological_sort_all, TopologicalSortError, SourceIndex, NodePack};
use crate::run::Rng;

/* ------------------------------------------------------------------ C12: dependency sorting */
fn plan_json(res : Result<NodePack, TopologicalSortError>) -> Value
{
    match res
    {
        Ok(pack) => json!({"ok" : true, "plan" : {"leaves" : pack.leaves,
            "nodes" : pack.nodes.iter().map(|n| json!({"tg" : n.targets,
                "si" : n.source_indices.iter().map(|s| match s { SourceIndex::Leaf(i) => json!(["L", i]), SourceIndex::Pair(i, j) => json!(["P", i, j]) }).collect::<Vec<_>>()})).collect::<Vec<_>>()}}),
        Err(e) =>
        {
            let (kind, arg) = match e
            {
                TopologicalSortError::TargetMissing(t) => ("TargetMissing", vec![t]),
                TopologicalSortError::SelfDependentRule(t) => ("SelfDependentRule", vec![t]),
                TopologicalSortError::CircularDependence(c) => ("CircularDependence", c),
                TopologicalSortError::TargetInMultipleRules(t) => ("TargetInMultipleRules", vec![t]),
            };
            json!({"ok" : false, "kind" : kind, "arg" : arg})
        },
    }
}

fn run_sort(rules : &Vec<(Vec<String>, Vec<String>)>, goal : &str) -> Value
{
    let rs : Vec<Rule> = rules.iter().map(|(t, s)| Rule::new(t.clone(), s.clone(), vec![format!("cmd {}", t.join(","))])).collect();
    let g = goal.to_string();
    let r = std::panic::catch_unwind(move || if g == "" { topological_sort_all(rs) } else { topological_sort(rs, &g) });
    match r { Ok(res) => plan_json(res), Err(_) => json!({"ok" : false, "kind" : "PANIC", "arg" : []}) }
}

fn sort_record(id : String, rules : &Vec<(Vec<String>, Vec<String>)>, goal : &str, perm : Option<Vec<usize>>) -> Value
{
    let mut names : BTreeSet<String> = BTreeSet::new();
    for (t, s) in rules { for x in t { names.insert(x.clone()); } for x in s { names.insert(x.clone()); } }
    if goal != "" { names.insert(goal.to_string()); }
    let mut rec = json!({"id" : id, "ord" : names.iter().collect::<Vec<_>>(), "goal" : goal,
        "rules" : rules.iter().map(|(t, s)| json!({"tg" : t, "src" : s})).collect::<Vec<_>>(),
        "out" : run_sort(rules, goal)});
    if let Some(p) = perm
    {
        /* the parser delivers target and source lists in a canonical order whatever the line order was, so only the order of the rules varies */
        let permuted : Vec<(Vec<String>, Vec<String>)> = p.iter().map(|i| rules[*i].clone()).collect();
        rec["out2"] = run_sort(&permuted, goal);
    }
    rec
}

/*  every dependency graph on n single-target rules (each rule additionally depends on a leaf), every goal;
    plus multi-target variants and random larger graphs with duplicates, self-loops and cycles */
pub fn sort_cases(n : usize, random : usize, seed : u64) -> Vec<Value>
{
    let names : Vec<String> = ["a", "b", "c", "d", "e"].iter().take(n).map(|s| s.to_string()).collect();
    let mut out = vec![];
    let mut rng = Rng::new(seed);
    let total : u64 = 1u64 << (n * n);
    for code in 0..total
    {
        let mut rules = vec![];
        for i in 0..n
        {
            let mut src = vec![];
            for j in 0..n { if (code >> (i * n + j)) & 1 == 1 { src.push(names[j].clone()); } }
            src.push(format!("l{}", i % 2));
            rules.push((vec![names[i].clone()], src));
        }
        for g in 0..=n
        {
            let goal = if g == 0 { "".to_string() } else { names[g - 1].clone() };
            let mut perm : Vec<usize> = (0..n).collect();
            for k in (1..n).rev() { let j = rng.below(k + 1); perm.swap(k, j); }
            out.push(sort_record(format!("g{}.{}.{}", n, code, g), &rules, &goal, Some(perm)));
        }
    }
    /* dense acyclic graphs on 5..7 rules whose names are in random order relative to the dependency order */
    for r in 0..(random * 2)
    {
        let nr = 5 + rng.below(3);
        let mut names : Vec<String> = ["a", "b", "c", "d", "e", "g", "w"].iter().take(nr).map(|s| s.to_string()).collect();
        for k in (1..nr).rev() { let j = rng.below(k + 1); names.swap(k, j); }
        let mut rules : Vec<(Vec<String>, Vec<String>)> = vec![];
        for i in 0..nr
        {
            let mut src = vec![];
            for j in (i + 1)..nr { if rng.chance(2, 5) { src.push(names[j].clone()); } }
            if src.len() == 0 || rng.chance(1, 3) { src.push(format!("leaf{}", rng.below(2))); }
            src.sort();
            /* now and then a two-target rule whose parser (bundle) order is not the sorted order */
            let tg = if rng.chance(1, 6) { vec![format!("{}/o", names[i]), format!("{}.s", names[i])] } else { vec![names[i].clone()] };
            rules.push((tg, src));
        }
        /* dependents of a two-target rule refer to one of its real targets */
        let multi : Vec<(String, Vec<String>)> = rules.iter().filter(|(t, _)| t.len() == 2).map(|(t, _)| (t[0][..t[0].len() - 2].to_string(), t.clone())).collect();
        for (_, src) in rules.iter_mut() { for s in src.iter_mut() { for (base, t) in multi.iter() { if s == base { *s = t[rng.below(2)].clone(); } } } src.sort(); }
        let goal = if rng.chance(1, 3) { "".to_string() } else { let t = &rules[rng.below(nr)].0; t[rng.below(t.len())].clone() };
        let mut perm : Vec<usize> = (0..nr).collect();
        for k in (1..nr).rev() { let j = rng.below(k + 1); perm.swap(k, j); }
        out.push(sort_record(format!("d{}.{}", seed, r), &rules, &goal, Some(perm)));
    }
    for r in 0..random
    {
        let nr = 2 + rng.below(if r % 4 == 0 { 38 } else { 8 });
        let mut rules : Vec<(Vec<String>, Vec<String>)> = vec![];
        let mut pool : Vec<String> = vec![];
        for k in 0..nr
        {
            let nt = 1 + (rng.below(4) == 0) as usize + (rng.below(12) == 0) as usize;
            let mut tg = vec![];
            for j in 0..nt
            {
                if pool.len() > 0 && rng.chance(1, 40) { tg.push(pool[rng.below(pool.len())].clone()); }   // duplicate target
                else { tg.push(format!("{}{}_{}", ["m", "c", "x", "b", "k"][(k + j) % 5], k, j)); }
            }
            tg.sort(); tg.dedup();
            for t in &tg { pool.push(t.clone()); }
            rules.push((tg, vec![]));
        }
        for k in 0..nr
        {
            let ns = 1 + rng.below(3);
            let mut src : Vec<String> = vec![];
            for _ in 0..ns
            {
                let c = match rng.below(10)
                {
                    0..=2 => format!("leaf{}", rng.below(4)),
                    3..=8 => { let j = rng.below(nr); let backward = rng.chance(1, 12); if j < k || backward || nr < 6 { let t = &rules[j].0; t[rng.below(t.len())].clone() } else { format!("leaf{}", rng.below(4)) } },
                    _ => { if rng.chance(1, 6) { let t = &rules[k].0; t[0].clone() } else { format!("leaf{}", rng.below(4)) } },
                };
                if !src.contains(&c) { src.push(c); }
            }
            src.sort();
            rules[k].1 = src;
        }
        let goal = match rng.below(6) { 0 | 1 => "".to_string(), 2 => "nosuch".to_string(), _ => { let t = &rules[rng.below(nr)].0; t[rng.below(t.len())].clone() } };
        /* now and then a whole rule is given twice (two rules files that share a part): its targets are then targets of two rules */
        if rng.chance(1, 8) { let c = rules[rng.below(nr)].clone(); let at = rng.below(rules.len() + 1); rules.insert(at, c); }
        let nr = rules.len();
        let mut perm : Vec<usize> = (0..nr).collect();
        for k in (1..nr).rev() { let j = rng.below(k + 1); perm.swap(k, j); }
        out.push(sort_record(format!("r{}.{}", seed, r), &rules, &goal, Some(perm)));
    }
    out
}

/* ------------------------------------------------------------------ C13: rule identity */
fn rule_json(r : &(Vec<String>, Vec<String>, Vec<String>)) -> Value { json!({"tg" : r.0, "src" : r.1, "cl" : r.2}) }

/*  every rule over a small universe of strings is ticketed; every pair of distinct rules that share a ticket and every pair
    inside one canonical class is emitted (plus the random pairs below): exhaustive for collisions, sampled for the rest */
pub fn ident_exhaustive() -> Vec<Value>
{
    let toks = ["a", "b", "c", "a:", "b:", ":a", "a b"];
    let mut lists : Vec<Vec<String>> = vec![];
    for a in toks.iter() { lists.push(vec![a.to_string()]); for b in toks.iter() { if a != b { lists.push(vec![a.to_string(), b.to_string()]); } } }
    let cls : Vec<Vec<String>> = vec![vec!["a".to_string()], vec!["a:".to_string()], vec!["a".to_string(), "b".to_string()], vec!["b".to_string(), "a".to_string()], vec!["a b".to_string()], vec![":a".to_string(), "b".to_string()]];
    let mut by_ticket : std::collections::BTreeMap<String, Vec<(Vec<String>, Vec<String>, Vec<String>)>> = std::collections::BTreeMap::new();
    let mut by_canon : std::collections::BTreeMap<(Vec<String>, Vec<String>, Vec<String>), Vec<(Vec<String>, Vec<String>, Vec<String>)>> = std::collections::BTreeMap::new();
    for t in lists.iter() { for s in lists.iter() { for c in cls.iter()
    {
        let r = (t.clone(), s.clone(), c.clone());
        let tk = Rule::new(t.clone(), s.clone(), c.clone()).get_ticket().human_readable();
        by_ticket.entry(tk).or_default().push(r.clone());
        let mut ts = t.clone(); ts.sort(); let mut ss = s.clone(); ss.sort();
        by_canon.entry((ts, ss, c.clone())).or_default().push(r);
    } } }
    let mut out = vec![]; let mut k = 0;
    for (_, group) in by_ticket.iter() { for i in 0..group.len() { for j in (i + 1)..group.len()
    {
        k += 1; out.push(json!({"id" : format!("x{}", k), "r1" : rule_json(&group[i]), "r2" : rule_json(&group[j]), "same" : true}));
    } } }
    for (_, group) in by_canon.iter() { for i in 0..group.len() { for j in (i + 1)..group.len()
    {
        let same = Rule::new(group[i].0.clone(), group[i].1.clone(), group[i].2.clone()).get_ticket().human_readable()
                == Rule::new(group[j].0.clone(), group[j].1.clone(), group[j].2.clone()).get_ticket().human_readable();
        if !same { k += 1; out.push(json!({"id" : format!("x{}", k), "r1" : rule_json(&group[i]), "r2" : rule_json(&group[j]), "same" : false})); }
    } } }
    out.push(json!({"id" : "xcount", "r1" : rule_json(&(vec!["a".to_string()], vec!["a".to_string()], vec!["a".to_string()])), "r2" : rule_json(&(vec!["a".to_string()], vec!["a".to_string()], vec!["a".to_string()])), "same" : true, "rules_enumerated" : lists.len() * lists.len() * cls.len()}));
    out
}

pub fn ident_cases(random : usize, seed : u64) -> Vec<Value>
{
    let toks = ["a", "b", "a:", ": a", "a b", ";", "ab"];
    let mut rng = Rng::new(seed);
    let mut rules : Vec<(Vec<String>, Vec<String>, Vec<String>)> = vec![];
    let lists = |max : usize| -> Vec<Vec<String>>
    {
        let mut v : Vec<Vec<String>> = vec![];
        for a in toks.iter().take(max) { v.push(vec![a.to_string()]); for b in toks.iter().take(max) { if a != b { v.push(vec![a.to_string(), b.to_string()]); } } }
        v
    };
    let tgs = lists(4); let srcs = lists(4); let mut cls = lists(5); cls.push(vec!["a".to_string(), "a".to_string()]);
    for t in tgs.iter() { for s in srcs.iter() { for c in cls.iter() { if rng.chance(1, 3) { rules.push((t.clone(), s.clone(), c.clone())); } } } }
    let mut out = vec![];
    let tick = |r : &(Vec<String>, Vec<String>, Vec<String>)| Rule::new(r.0.clone(), r.1.clone(), r.2.clone()).get_ticket().human_readable();
    let mut emit = |id : String, r1 : &(Vec<String>, Vec<String>, Vec<String>), r2 : &(Vec<String>, Vec<String>, Vec<String>), out : &mut Vec<Value>|
    {
        out.push(json!({"id" : id, "r1" : rule_json(r1), "r2" : rule_json(r2), "same" : tick(r1) == tick(r2)}));
    };
    for k in 0..random
    {
        let r1 = rules[rng.below(rules.len())].clone();
        let r2 = match rng.below(8)
        {
            0 => rules[rng.below(rules.len())].clone(),
            1 => { let mut r = r1.clone(); r.0.reverse(); r.1.reverse(); r },                                   // permuted lists: same identity
            2 => { let mut r = r1.clone(); if r.2.len() == 2 { r.2 = vec![format!("{} {}", r.2[0], r.2[1])]; } r },   // merged command lines
            3 => { let mut r = r1.clone(); if r.2.len() == 2 { r.2.reverse(); } r },                              // command lines permuted: different
            4 => { let mut r = r1.clone(); if r.0.len() == 2 { let x = r.0.pop().unwrap(); r.1.push(x); } r },    // a string moved across the section boundary
            5 => { let mut r = r1.clone(); if r.1.len() == 2 { let x = r.1.pop().unwrap(); r.2.insert(0, x); } r },
            6 => { let mut r = r1.clone(); let x = r.0[0].clone(); r.0[0] = format!("{}x", x); r },               // renamed target
            _ => { let mut r = r1.clone(); r.2.push("a".to_string()); r },                                        // extra command line
        };
        emit(format!("i{}.{}", seed, k), &r1, &r2, &mut out);
        if k % 4 == 0
        {   /* the same pair with one or two of its strings made long (lines of 255 .. 600 bytes: around any internal buffering of the
               hashing), consistently in both rules - an injective renaming, so the expected answer is the same */
            let la = ["q".repeat(255), "q".repeat(256), "q".repeat(257), "q".repeat(300), "q".repeat(600)][rng.below(5)].clone();
            let lb = if rng.chance(1, 2) { "r".repeat(256 + rng.below(3)) } else { "b".to_string() };
            let long = |r : &(Vec<String>, Vec<String>, Vec<String>)| -> (Vec<String>, Vec<String>, Vec<String>)
            {
                let f = |v : &Vec<String>| v.iter().map(|x| if x == "a" { la.clone() } else if x == "b" { lb.clone() } else { x.clone() }).collect::<Vec<String>>();
                (f(&r.0), f(&r.1), f(&r.2))
            };
            emit(format!("i{}.{}L", seed, k), &long(&r1), &long(&r2), &mut out);
        }
    }
    out
}

/* ------------------------------------------------------------------ C14: the rules-file parser */
fn lex(text : &str) -> Vec<Value>
{
    text.split('\n').map(|l| { let lvl = l.chars().take_while(|c| *c == '\t').count(); json!({"lvl" : lvl, "nm" : l[lvl..].to_string()}) }).collect()
}

fn parse_out(text : &str) -> Value
{
    let t = text.to_string();
    match std::panic::catch_unwind(move || crate::rule::parse("f.rules".to_string(), t))
    {
        Err(_) => json!({"res" : "panic"}),
        Ok(Ok(rules)) => json!({"res" : "ok", "rules" : rules.iter().map(|r| json!({"tg" : r.targets, "src" : r.sources, "cmd" : r.command})).collect::<Vec<_>>()}),
        Ok(Err(e)) =>
        {
            use crate::rule::ParseError as P;
            use crate::bundle::ParseError as B;
            let (kind, line) = match &e
            {
                P::UnexpectedEmptyLine(_, l) => ("EmptyLine", *l),
                P::UnexpectedExtraColon(_, l) => ("ExtraColon", *l),
                P::UnexpectedEndOfFileMidTargets(_, l) => ("EofT", *l),
                P::UnexpectedEndOfFileMidSources(_, l) => ("EofS", *l),
                P::UnexpectedEndOfFileMidCommand(_, l) => ("EofK", *l),
                P::BundleError(_, b) => (match b { B::Empty => "BEmpty", B::ContainsEmptyLines(_) => "BEmptyLines", B::Contradiction(_, _) => "BContradiction", B::WrongIndent(_) => "BWrongIndent" }, 0),
            };
            json!({"res" : "err", "kind" : kind, "line" : line})
        },
    }
}

/*  parse_all over two files: the error must name the file it is in */
fn parse_all_record(id : String, t1 : &str, t2 : &str) -> Value
{
    let (a, b) = (t1.to_string(), t2.to_string());
    let out = match std::panic::catch_unwind(move || crate::rule::parse_all(vec![("one.rules".to_string(), a), ("two.rules".to_string(), b)]))
    {
        Err(_) => json!({"res" : "panic"}),
        Ok(Ok(rules)) => json!({"res" : "ok", "rules" : rules.iter().map(|r| json!({"tg" : r.targets, "src" : r.sources, "cmd" : r.command})).collect::<Vec<_>>()}),
        Ok(Err(e)) =>
        {
            use crate::rule::ParseError as P;
            let file = match &e { P::UnexpectedEmptyLine(f, _) | P::UnexpectedExtraColon(f, _) | P::UnexpectedEndOfFileMidTargets(f, _) | P::UnexpectedEndOfFileMidSources(f, _) | P::UnexpectedEndOfFileMidCommand(f, _) | P::BundleError(f, _) => f.clone() };
            let single = parse_out(if file == "one.rules" { t1 } else { t2 });
            json!({"res" : "err", "file" : file, "kind" : single["kind"], "line" : single["line"], "single_res" : single["res"]})
        },
    };
    json!({"id" : id, "multi" : true, "lines1" : lex(t1), "lines2" : lex(t2), "lines" : [], "out" : out})
}

fn parse_record(id : String, text : &str, variant : Option<String>) -> Value
{
    let mut rec = json!({"id" : id, "lines" : lex(text), "out" : parse_out(text)});
    if let Some(v) = variant { rec["out2"] = parse_out(&v); }
    rec
}

/*  a random bundle: returns lines (with tabs) of a section */
fn gen_bundle(rng : &mut Rng, depth : usize, names : &[&str], out : &mut Vec<String>, permuted : &mut Vec<String>)
{
    let n = 1 + rng.below(3);
    let mut groups : Vec<Vec<String>> = vec![];
    let mut used = vec![];
    for _ in 0..n
    {
        let nm = names[rng.below(names.len())];
        if used.contains(&nm) && rng.chance(3, 4) { continue; }
        used.push(nm);
        let mut g = vec![format!("{}{}", "\t".repeat(depth), nm)];
        if depth < 2 && rng.chance(1, 3)
        {
            let mut sub = vec![]; let mut subp = vec![];
            gen_bundle(rng, depth + 1, names, &mut sub, &mut subp);
            g.extend(sub);
        }
        groups.push(g);
    }
    for g in groups.iter() { out.extend(g.clone()); }
    let mut rev = groups.clone(); rev.reverse();
    for g in rev.iter() { permuted.extend(g.clone()); }
}

pub fn parse_cases(maxlen : usize, random : usize, seed : u64) -> Vec<Value>
{
    let mut out = vec![];
    /* every sequence of at most maxlen lines over a 7-letter line alphabet */
    let alpha = ["", ":", "a", "b", "\ta", "\t", "\t\tb", " "];
    let mut seqs : Vec<Vec<usize>> = vec![vec![]];
    let mut frontier : Vec<Vec<usize>> = vec![vec![]];
    for _ in 0..maxlen
    {
        let mut next = vec![];
        for s in frontier.iter() { for a in 0..alpha.len() { let mut t = s.clone(); t.push(a); next.push(t); } }
        seqs.extend(next.clone());
        frontier = next;
    }
    for (k, s) in seqs.iter().enumerate()
    {
        let text = s.iter().map(|a| alpha[*a]).collect::<Vec<_>>().join("\n");
        out.push(parse_record(format!("e{}", k), &text, None));
    }
    /* rendered random rule sets, their corruptions, token soup */
    let mut rng = Rng::new(seed);
    let names = ["a", "b c", "d:e", "f", "g\r", "h\u{e9}", "src", "x.y", " ", "\r", "\u{a0}"];
    for r in 0..random
    {
        let nr = 1 + rng.below(3);
        let mut text = String::new(); let mut ptext = String::new();
        for _ in 0..rng.below(2) { text.push('\n'); ptext.push('\n'); }
        for k in 0..nr
        {
            for _sec in 0..2
            {
                let mut l = vec![]; let mut p = vec![];
                gen_bundle(&mut rng, 0, &names, &mut l, &mut p);
                for x in l { text.push_str(&x); text.push('\n'); }
                for x in p { ptext.push_str(&x); ptext.push('\n'); }
                text.push_str(":\n"); ptext.push_str(":\n");
            }
            let nc = 1 + rng.below(3);
            for c in 0..nc { let line = format!("{} cmd{} {}", if rng.chance(1, 5) { "\t" } else { "" }, c, names[rng.below(names.len())]); text.push_str(&line); text.push('\n'); ptext.push_str(&line); ptext.push('\n'); }
            text.push_str(":\n"); ptext.push_str(":\n");
            if k + 1 < nr || rng.chance(1, 2) { let nb = if rng.chance(1, 6) { 0 } else { 1 + rng.below(2) }; for _ in 0..nb { text.push('\n'); ptext.push('\n'); } }
        }
        if rng.chance(1, 2) && text.ends_with('\n') { text.pop(); ptext.pop(); }
        out.push(parse_record(format!("w{}.{}", seed, r), &text, Some(ptext)));
        {   /* the same text split over two files at a random line, and a corrupted half */
            let all : Vec<&str> = text.split('\n').collect();
            let cut = rng.below(all.len() + 1);
            let (t1, t2) = (all[..cut].join("\n"), all[cut..].join("\n"));
            out.push(parse_all_record(format!("m{}.{}", seed, r), &t1, &t2));
            out.push(parse_all_record(format!("n{}.{}", seed, r), &t2, &format!(":\n{}", t1)));
        }
        /* single-edit corruptions */
        let lines : Vec<&str> = text.split('\n').collect();
        for c in 0..4
        {
            let mut l : Vec<String> = lines.iter().map(|s| s.to_string()).collect();
            let at = rng.below(l.len().max(1));
            match c
            {
                0 => { if l.len() > 1 { l.remove(at); } },
                1 => { l.insert(at, "".to_string()); },
                2 => { l.insert(at, ":".to_string()); },
                _ => { l.truncate(at); },
            }
            out.push(parse_record(format!("c{}.{}.{}", seed, r, c), &l.join("\n"), None));
        }
        if r % 5 == 0
        {
            let toks = ["a", ":", "", "\t", "\tb", "\r", ": ", " :", "\t:", "\u{e9}", "\t\t", "c d"];
            let n = rng.below(9);
            let soup : Vec<&str> = (0..n).map(|_| toks[rng.below(toks.len())]).collect();
            out.push(parse_record(format!("s{}.{}", seed, r), &soup.join("\n"), None));
        }
    }
    out
}

/* ------------------------------------------------------------------ C16: state files */
pub fn persist_cases(n : usize, seed : u64) -> Vec<Value>
{
    use crate::vsys::VSystem;
    use crate::system::System;
    use crate::history::{History, RuleHistory};
    use crate::current::CurrentFileStates;
    use crate::blob::{FileStateVec, FileState};
    use crate::ticket::TicketFactory;
    use std::io::{Read, Write};
    let mut rng = Rng::new(seed);
    let mut out = vec![];
    let tk = |s : String| TicketFactory::from_str(&s).result();
    let read_bytes = |sys : &VSystem, p : &str| -> Vec<u8> { let mut f = sys.open(p).unwrap(); let mut b = vec![]; f.read_to_end(&mut b).unwrap(); b };
    let write_bytes = |sys : &VSystem, p : &str, b : &[u8]| { let mut s2 = sys.clone(); let mut f = s2.create_file(p).unwrap(); f.write_all(b).unwrap(); };
    let damage = |rng : &mut Rng, bytes : &Vec<u8>| -> Vec<(String, Vec<u8>)>
    {
        let mut v = vec![("whole".to_string(), bytes.clone())];
        let np = if bytes.len() <= 120 { bytes.len() } else { 24 };
        for k in 0..np { let cut = if bytes.len() <= 120 { k } else { rng.below(bytes.len()) }; v.push(("prefix".to_string(), bytes[..cut].to_vec())); }
        let nf = if bytes.len() <= 60 { bytes.len() * 8 } else { 40 };
        for k in 0..nf { let bit = if bytes.len() <= 60 { k } else { rng.below(bytes.len() * 8) }; let mut b = bytes.clone(); b[bit / 8] ^= 1 << (bit % 8); v.push(("flip".to_string(), b)); }
        for _ in 0..4 { let len = rng.below(200); v.push(("junk".to_string(), (0..len).map(|_| rng.below(256) as u8).collect())); }
        let mut e = bytes.clone(); e.push(rng.below(256) as u8); v.push(("extra".to_string(), e));
        v
    };
    for case in 0..n
    {
        let sys = VSystem::new("h", false);
        { let mut s2 = sys.clone(); s2.create_dir("h").unwrap(); }
        /* a rule history */
        let entries = if case == 1 { 50 } else if case % 3 == 0 { rng.below(3) } else { rng.below(51) };
        let nt = if case == 1 { 8 } else { 1 + rng.below(8) };
        let mut rh = RuleHistory::new();
        for e in 0..entries
        {
            let tickets = (0..nt).map(|t| tk(format!("t{}.{}.{}", case, e, t))).collect();
            let _ = rh.insert(tk(format!("s{}.{}", case, e)), FileStateVec::from_ticket_vec(tickets));
        }
        let rt = tk(format!("rule{}", case));
        let mut hist = History::new(sys.clone(), "h");
        let wrote = hist.write_rule_history(rt.clone(), rh.clone()).is_ok();
        let path = format!("h/{}", rt);
        if !wrote || !sys.exists(&path)
        {   /* what was recorded cannot be read back at all */
            out.push(json!({"id" : format!("h{}.nofile", case), "file" : "history", "how" : "whole", "len" : 0, "outcome" : "error", "note" : "write_rule_history left no file"}));
            continue;
        }
        let good = read_bytes(&sys, &path);
        let mine = crate::project::decode_history(&good);
        if mine.map(|m| m.len()) != Some(entries) { out.push(json!({"id" : format!("h{}.decoder", case), "file" : "history", "how" : "whole", "outcome" : "error", "note" : "independent decoder disagrees"})); }
        for (k, (how, bytes)) in damage(&mut rng, &good).into_iter().enumerate()
        {
            if how == "flip" && bytes == good { continue; }
            write_bytes(&sys, &path, &bytes);
            let h2 = History::new(sys.clone(), "h");
            let rt2 = rt.clone();
            let res = std::panic::catch_unwind(std::panic::AssertUnwindSafe(move || h2.read_rule_history(&rt2)));
            let outcome = match res { Err(_) => "panic", Ok(Err(_)) => "error", Ok(Ok(r)) => if r == rh { "same" } else { "other" } };
            out.push(json!({"id" : format!("h{}.{}", case, k), "file" : "history", "how" : how, "len" : bytes.len(), "outcome" : outcome}));
        }
        /* a file-state table */
        let entries = if case % 3 == 0 { rng.below(3) } else { rng.below(51) };
        let tpath = "h/current_file_states".to_string();
        let mut table = CurrentFileStates::from_file(sys.clone(), tpath.clone()).unwrap();
        let mut orig = vec![];
        for e in 0..entries
        {
            let st = FileState{ticket : tk(format!("c{}.{}", case, e)), timestamp : rng.next() % 1_000_000_007, executable : rng.chance(1, 2)};
            let p = format!("dir{}/file{}", e % 4, e);
            table.insert_file_state(p.clone(), st.clone());
            orig.push((p, st));
        }
        table.to_file().unwrap();
        let good = read_bytes(&sys, &tpath);
        for (k, (how, bytes)) in damage(&mut rng, &good).into_iter().enumerate()
        {
            if how == "flip" && bytes == good { continue; }
            write_bytes(&sys, &tpath, &bytes);
            let s3 = sys.clone(); let tp = tpath.clone();
            let res = std::panic::catch_unwind(std::panic::AssertUnwindSafe(move || CurrentFileStates::from_file(s3, tp)));
            let outcome = match res
            {
                Err(_) => "panic", Ok(Err(_)) => "error",
                Ok(Ok(mut t2)) =>
                {
                    let blob = t2.take_blob(orig.iter().map(|(p, _)| p.clone()).collect());
                    let same_states = blob.get_file_infos().iter().zip(orig.iter()).all(|(i, (_, st))| i.file_state == *st);
                    let same_size = crate::project::decode_table(&bytes).map(|m| m.len()) == Some(orig.len());
                    if same_states && same_size { "same" } else { "other" }
                },
            };
            out.push(json!({"id" : format!("t{}.{}", case, k), "file" : "table", "how" : how, "len" : bytes.len(), "outcome" : outcome}));
        }
    }
    out
}
