// Satellite drivers: pure components of ruler run on enumerated / random inputs; every (input, output)
// pair is written as one JSON record and judged by TLC against the corresponding oracle specification.
use std::collections::BTreeSet;
use serde_json::{json, Value};
use crate::rule::Rule;
use crate::sort::{topological_sort, topological_sort_all, TopologicalSortError, SourceIndex, NodePack};
use crate::run::Rng;

/* ------------------------------------------------------------------ C12: dependency sorting */
fn plan_json(res : Result<NodePack, TopologicalSortError>) -> Value
{
    match res
    {
        Ok(pack) => json!({"ok" : true, "plan" : {"leaves" : pack.leaves,
            "nodes" : pack.nodes.iter().map(|n| json!({"tg" : n.targets,
                "si" : n.source_indices.iter().map(|s| match s { SourceIndex::Leaf(i) => json!(["L", i]), SourceIndex::Pair(i, j) => json!(["P", i, j]) }).collect::<Vec<_>>()})).collect::<Vec<_>>()}}),
        Err(e) =>
        {
            let (kind, arg) = match e
            {
                TopologicalSortError::TargetMissing(t) => ("TargetMissing", vec![t]),
                TopologicalSortError::SelfDependentRule(t) => ("SelfDependentRule", vec![t]),
                TopologicalSortError::CircularDependence(c) => ("CircularDependence", c),
                TopologicalSortError::TargetInMultipleRules(t) => ("TargetInMultipleRules", vec![t]),
            };
            json!({"ok" : false, "kind" : kind, "arg" : arg})
        },
    }
}

fn run_sort(rules : &Vec<(Vec<String>, Vec<String>)>, goal : &str) -> Value
{
    let rs : Vec<Rule> = rules.iter().enumerate().map(|(k, (t, s))| Rule::new(t.clone(), s.clone(), vec![format!("cmd{}", k)])).collect();
    let g = goal.to_string();
    let r = std::panic::catch_unwind(move || if g == "" { topological_sort_all(rs) } else { topological_sort(rs, &g) });
    match r { Ok(res) => plan_json(res), Err(_) => json!({"ok" : false, "kind" : "PANIC", "arg" : []}) }
}

fn sort_record(id : String, rules : &Vec<(Vec<String>, Vec<String>)>, goal : &str, perm : Option<Vec<usize>>) -> Value
{
    let mut names : BTreeSet<String> = BTreeSet::new();
    for (t, s) in rules { for x in t { names.insert(x.clone()); } for x in s { names.insert(x.clone()); } }
    if goal != "" { names.insert(goal.to_string()); }
    let mut rec = json!({"id" : id, "ord" : names.iter().collect::<Vec<_>>(), "goal" : goal,
        "rules" : rules.iter().map(|(t, s)| json!({"tg" : t, "src" : s})).collect::<Vec<_>>(),
        "out" : run_sort(rules, goal)});
    if let Some(p) = perm
    {
        let permuted : Vec<(Vec<String>, Vec<String>)> = p.iter().map(|i| { let (t, s) = &rules[*i]; let mut t2 = t.clone(); let mut s2 = s.clone(); t2.reverse(); s2.reverse(); (t2, s2) }).collect();
        rec["out2"] = run_sort(&permuted, goal);
    }
    rec
}

/*  every dependency graph on n single-target rules (each rule additionally depends on a leaf), every goal;
    plus multi-target variants and random larger graphs with duplicates, self-loops and cycles */
pub fn sort_cases(n : usize, random : usize, seed : u64) -> Vec<Value>
{
    let names : Vec<String> = ["a", "b", "c", "d", "e"].iter().take(n).map(|s| s.to_string()).collect();
    let mut out = vec![];
    let mut rng = Rng::new(seed);
    let total : u64 = 1u64 << (n * n);
    for code in 0..total
    {
        let mut rules = vec![];
        for i in 0..n
        {
            let mut src = vec![];
            for j in 0..n { if (code >> (i * n + j)) & 1 == 1 { src.push(names[j].clone()); } }
            src.push(format!("l{}", i % 2));
            rules.push((vec![names[i].clone()], src));
        }
        for g in 0..=n
        {
            let goal = if g == 0 { "".to_string() } else { names[g - 1].clone() };
            let mut perm : Vec<usize> = (0..n).collect();
            for k in (1..n).rev() { let j = rng.below(k + 1); perm.swap(k, j); }
            out.push(sort_record(format!("g{}.{}.{}", n, code, g), &rules, &goal, Some(perm)));
        }
    }
    for r in 0..random
    {
        let nr = 2 + rng.below(if r % 4 == 0 { 38 } else { 8 });
        let mut rules : Vec<(Vec<String>, Vec<String>)> = vec![];
        let mut pool : Vec<String> = vec![];
        for k in 0..nr
        {
            let nt = 1 + (rng.below(4) == 0) as usize + (rng.below(12) == 0) as usize;
            let mut tg = vec![];
            for j in 0..nt
            {
                if pool.len() > 0 && rng.chance(1, 40) { tg.push(pool[rng.below(pool.len())].clone()); }   // duplicate target
                else { tg.push(format!("{}{}_{}", ["m", "c", "x", "b", "k"][(k + j) % 5], k, j)); }
            }
            tg.sort(); tg.dedup();
            for t in &tg { pool.push(t.clone()); }
            rules.push((tg, vec![]));
        }
        for k in 0..nr
        {
            let ns = 1 + rng.below(3);
            let mut src : Vec<String> = vec![];
            for _ in 0..ns
            {
                let c = match rng.below(10)
                {
                    0..=2 => format!("leaf{}", rng.below(4)),
                    3..=8 => { let j = rng.below(nr); let backward = rng.chance(1, 12); if j < k || backward || nr < 6 { let t = &rules[j].0; t[rng.below(t.len())].clone() } else { format!("leaf{}", rng.below(4)) } },
                    _ => { if rng.chance(1, 6) { let t = &rules[k].0; t[0].clone() } else { format!("leaf{}", rng.below(4)) } },
                };
                if !src.contains(&c) { src.push(c); }
            }
            src.sort();
            rules[k].1 = src;
        }
        let goal = match rng.below(6) { 0 | 1 => "".to_string(), 2 => "nosuch".to_string(), _ => { let t = &rules[rng.below(nr)].0; t[rng.below(t.len())].clone() } };
        let mut perm : Vec<usize> = (0..nr).collect();
        for k in (1..nr).rev() { let j = rng.below(k + 1); perm.swap(k, j); }
        out.push(sort_record(format!("r{}.{}", seed, r), &rules, &goal, Some(perm)));
    }
    out
}

/* ------------------------------------------------------------------ C13: rule identity */
fn rule_json(r : &(Vec<String>, Vec<String>, Vec<String>)) -> Value { json!({"tg" : r.0, "src" : r.1, "cl" : r.2}) }

pub fn ident_cases(random : usize, seed : u64) -> Vec<Value>
{
    let toks = ["a", "b", "a:", ": a", "a b", ";", "ab"];
    let mut rng = Rng::new(seed);
    let mut rules : Vec<(Vec<String>, Vec<String>, Vec<String>)> = vec![];
    let lists = |max : usize| -> Vec<Vec<String>>
    {
        let mut v : Vec<Vec<String>> = vec![];
        for a in toks.iter().take(max) { v.push(vec![a.to_string()]); for b in toks.iter().take(max) { if a != b { v.push(vec![a.to_string(), b.to_string()]); } } }
        v
    };
    let tgs = lists(4); let srcs = lists(4); let mut cls = lists(5); cls.push(vec!["a".to_string(), "a".to_string()]);
    for t in tgs.iter() { for s in srcs.iter() { for c in cls.iter() { if rng.chance(1, 3) { rules.push((t.clone(), s.clone(), c.clone())); } } } }
    let mut out = vec![];
    let tick = |r : &(Vec<String>, Vec<String>, Vec<String>)| Rule::new(r.0.clone(), r.1.clone(), r.2.clone()).get_ticket().human_readable();
    let mut emit = |id : String, r1 : &(Vec<String>, Vec<String>, Vec<String>), r2 : &(Vec<String>, Vec<String>, Vec<String>), out : &mut Vec<Value>|
    {
        out.push(json!({"id" : id, "r1" : rule_json(r1), "r2" : rule_json(r2), "same" : tick(r1) == tick(r2)}));
    };
    for k in 0..random
    {
        let r1 = rules[rng.below(rules.len())].clone();
        let r2 = match rng.below(8)
        {
            0 => rules[rng.below(rules.len())].clone(),
            1 => { let mut r = r1.clone(); r.0.reverse(); r.1.reverse(); r },                                   // permuted lists: same identity
            2 => { let mut r = r1.clone(); if r.2.len() == 2 { r.2 = vec![format!("{} {}", r.2[0], r.2[1])]; } r },   // merged command lines
            3 => { let mut r = r1.clone(); if r.2.len() == 2 { r.2.reverse(); } r },                              // command lines permuted: different
            4 => { let mut r = r1.clone(); if r.0.len() == 2 { let x = r.0.pop().unwrap(); r.1.push(x); } r },    // a string moved across the section boundary
            5 => { let mut r = r1.clone(); if r.1.len() == 2 { let x = r.1.pop().unwrap(); r.2.insert(0, x); } r },
            6 => { let mut r = r1.clone(); let x = r.0[0].clone(); r.0[0] = format!("{}x", x); r },               // renamed target
            _ => { let mut r = r1.clone(); r.2.push("a".to_string()); r },                                        // extra command line
        };
        emit(format!("i{}.{}", seed, k), &r1, &r2, &mut out);
    }
    out
}
