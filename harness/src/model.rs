// The harness' rule model and command language (what the commands of generated rules compute).
use serde_json::{json, Value};

#[derive(Clone, Debug, PartialEq)]
pub struct XRule
{
    pub tg : Vec<String>,      // sorted
    pub src : Vec<String>,     // sorted
    pub kind : String,         // fn | sel | copy | const | empty | fail
    pub id : String,
    pub omit : usize,          // 0 = none, k = target k is not written
    pub mask : Vec<usize>,     // targets whose content also depends on the undeclared input
    pub x : bool,              // outputs get the executable bit
    pub pf : bool,             // the command starts with a line that exits non-zero (later lines still run)
    pub pk : bool,             // ... that line is killed by a signal instead (no exit code); only with pf
    pub layout : u8,           // 0: command on one line, 1: one word per line
    pub rev : bool,            // target / source lines written in reverse order in the rules file
    pub flat : bool,           // paths in directories written as flat lines (a/b) instead of bundles: same rule, other parser order
}

impl XRule
{
    pub fn new(tg : &[&str], src : &[&str], kind : &str, id : &str) -> XRule
    {
        let mut t : Vec<String> = tg.iter().map(|s| s.to_string()).collect(); t.sort();
        let mut s : Vec<String> = src.iter().map(|s| s.to_string()).collect(); s.sort();
        XRule{tg : t, src : s, kind : kind.to_string(), id : id.to_string(), omit : 0, mask : vec![], x : false, pf : false, pk : false, layout : 0, rev : false, flat : false}
    }

    fn flags(&self) -> String
    {
        let mut parts = vec![];
        if self.omit > 0 { parts.push(format!("o{}", self.omit)); }
        if self.mask.len() > 0 { parts.push(format!("m{}", self.mask.iter().map(|i| i.to_string()).collect::<Vec<_>>().join("."))); }
        if self.x { parts.push("x".to_string()); }
        if parts.len() == 0 { "-".to_string() } else { parts.join("+") }
    }

    pub fn command_lines(&self) -> Vec<String>
    {
        let words = vec!["vcmd".to_string(), self.kind.clone(), self.id.clone(), self.tg.join(","), self.src.join(","), self.flags()];
        let mut lines = vec![];
        if self.pf { lines.push(if self.pk { "vcmd killed".to_string() } else { "vcmd false".to_string() }); lines.push(";".to_string()); }
        if self.layout == 0 { lines.push(words.join(" ")); } else { lines.extend(words); }
        lines
    }

    pub fn rid(&self) -> String
    {
        format!("R{{{}}}{{{}}}{{{}}}", self.tg.join(","), self.src.join(","), self.command_lines().join("|"))
    }

    pub fn to_json(&self) -> Value
    {
        /* a command killed by a signal (no exit code) fails like one that exits non-zero */
        let kind = if self.kind == "kill" { "fail".to_string() } else { self.kind.clone() };
        json!({"tg" : self.tg, "src" : self.src, "cl" : self.command_lines(), "kind" : kind, "id" : self.id,
               "omit" : self.omit, "mask" : self.mask, "x" : self.x, "pf" : self.pf})
    }

    pub fn from_json(v : &Value) -> XRule
    {
        let strs = |k : &str| -> Vec<String> { v[k].as_array().map(|a| a.iter().map(|s| s.as_str().unwrap_or("").to_string()).collect()).unwrap_or_default() };
        let cl = strs("cl");
        XRule
        {
            tg : strs("tg"), src : strs("src"), kind : v["kind"].as_str().unwrap_or("fn").to_string(), id : v["id"].as_str().unwrap_or("").to_string(),
            omit : v["omit"].as_u64().unwrap_or(0) as usize,
            mask : v["mask"].as_array().map(|a| a.iter().map(|x| x.as_u64().unwrap_or(0) as usize).collect()).unwrap_or_default(),
            x : v["x"].as_bool().unwrap_or(false), pf : v["pf"].as_bool().unwrap_or(false), pk : cl.iter().any(|l| l == "vcmd killed"),
            layout : if cl.iter().any(|l| l == "vcmd") { 1 } else { 0 }, rev : false, flat : v["flat"].as_bool().unwrap_or(false),
        }
    }
}

/*  the implementation's order of rules: Vec<Rule>::sort() on (targets, sources, command); targets are unique,
    so this is the order of the sorted target lists */
pub fn sort_rules(rules : &mut Vec<XRule>)
{
    /* the parser delivers a rule's paths in bundle order (siblings by name, directory by directory), and Vec<Rule>::sort()
       compares those vectors; targets are unique, so the target vector decides */
    rules.sort_by(|a, b| spelled_order(a).cmp(&spelled_order(b)));
}

pub fn spelled_order(r : &XRule) -> Vec<String>
{
    if r.flat { let mut v = r.tg.clone(); v.sort(); v } else { bundle_order(&r.tg) }
}

pub fn bundle_order(paths : &Vec<String>) -> Vec<String>
{
    let mut v = paths.clone();
    v.sort_by(|a, b| a.split('/').collect::<Vec<_>>().cmp(&b.split('/').collect::<Vec<_>>()));
    v
}

/*  lines of a section: directories become bundle lines with tab-indented children */
fn bundle_lines(paths : &Vec<String>, depth : usize, rev : bool, out : &mut Vec<String>)
{
    let mut heads : Vec<String> = vec![];
    for p in paths { let h = p.split('/').next().unwrap().to_string(); if !heads.contains(&h) { heads.push(h); } }
    if rev { heads.reverse(); }
    for h in heads
    {
        out.push(format!("{}{}", "\t".repeat(depth), h));
        let pre = format!("{}/", h);
        let kids : Vec<String> = paths.iter().filter(|p| p.starts_with(&pre)).map(|p| p[pre.len()..].to_string()).collect();
        if kids.len() > 0 { bundle_lines(&kids, depth + 1, rev, out); }
    }
}

pub fn rules_json(rules : &Vec<XRule>) -> Value
{
    let mut sorted = rules.clone();
    sort_rules(&mut sorted);
    Value::Array(sorted.iter().map(|r| r.to_json()).collect())
}

pub fn render(rules : &Vec<XRule>) -> String
{
    let mut out = String::new();
    for r in rules
    {
        let mut tg = vec![]; let mut src = vec![];
        if r.flat { tg = r.tg.clone(); src = r.src.clone(); if r.rev { tg.reverse(); src.reverse(); } }
        else { bundle_lines(&r.tg, 0, r.rev, &mut tg); bundle_lines(&r.src, 0, r.rev, &mut src); }
        for t in &tg { out.push_str(t); out.push('\n'); }
        out.push_str(":\n");
        for s in &src { out.push_str(s); out.push('\n'); }
        out.push_str(":\n");
        for l in r.command_lines() { out.push_str(&l); out.push('\n'); }
        out.push_str(":\n\n");
    }
    out
}

pub struct Cmd { pub kind : String, pub id : String, pub tg : Vec<String>, pub src : Vec<String>, pub omit : usize, pub mask : Vec<usize>, pub x : bool }

pub fn parse_vcmd(line : &str) -> Option<Cmd>
{
    let w : Vec<&str> = line.split_whitespace().collect();
    if w.len() == 2 && w[0] == "vcmd" && (w[1] == "false" || w[1] == "killed")
    {
        return Some(Cmd{kind : w[1].to_string(), id : "".to_string(), tg : vec![], src : vec![], omit : 0, mask : vec![], x : false});
    }
    if w.len() != 6 || w[0] != "vcmd" { return None; }
    let mut cmd = Cmd{kind : w[1].to_string(), id : w[2].to_string(),
        tg : w[3].split(',').map(|s| s.to_string()).collect(), src : w[4].split(',').map(|s| s.to_string()).collect(),
        omit : 0, mask : vec![], x : false};
    if w[5] != "-"
    {
        for part in w[5].split('+')
        {
            if part == "x" { cmd.x = true; }
            else if let Some(k) = part.strip_prefix('o') { cmd.omit = k.parse().ok()?; }
            else if let Some(m) = part.strip_prefix('m') { cmd.mask = m.split('.').filter_map(|i| i.parse().ok()).collect(); }
            else { return None; }
        }
    }
    Some(cmd)
}

pub fn out_content(cmd : &Cmd, i : usize, seen : &Vec<String>, env : &str) -> String
{
    let base = match cmd.kind.as_str()
    {
        "copy" => seen[0].clone(),
        "const" => format!("K({})", cmd.id),
        "empty" => "".to_string(),
        "sel" => format!("F({},{})[{}]", cmd.id, i, seen[(i - 1) % seen.len()]),
        _ => format!("F({},{})[{}]", cmd.id, i, seen.join("|")),
    };
    if cmd.mask.contains(&i) { format!("{}@{}", base, env) } else { base }
}
