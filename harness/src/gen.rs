// Generators shared by the in-process drivers and the real-binary drivers: random numbers, profiles, random rule graphs.
// (No dependence on ruler's own modules.)
use std::collections::BTreeMap;
use serde_json::Value;
use crate::model::XRule;

pub struct Rng(pub u64);
impl Rng
{
    pub fn new(seed : u64) -> Rng { Rng(0x9E3779B97F4A7C15u64.wrapping_mul(seed.wrapping_add(0x1234567)) | 1) }
    pub fn next(&mut self) -> u64 { self.0 ^= self.0 << 13; self.0 ^= self.0 >> 7; self.0 ^= self.0 << 17; self.0 }
    pub fn below(&mut self, n : usize) -> usize { if n == 0 { 0 } else { (self.next() % (n as u64)) as usize } }
    pub fn chance(&mut self, num : usize, den : usize) -> bool { self.below(den) < num }
}

pub struct Profile
{
    pub max_rules : usize,
    pub max_steps : usize,
    pub fail : bool,       // failing / omitting commands, missing leaves
    pub env : bool,        // rules with an undeclared input
    pub tick : bool,       // tick clock
    pub twin : bool,       // C18 twin run
    pub wreck : bool,      // delete parts of the ruler directory
    pub serial_ref : bool, // C06 reference run
    pub equal_outputs : bool, // favour copy rules over the same sources
    pub damage : bool,     // corrupt state files, make the rule set cyclic / ambiguous for a while
}

pub fn profile(name : &str) -> Profile
{
    let base = Profile{max_rules : 5, max_steps : 14, fail : true, env : false, tick : false, twin : false, wreck : true, serial_ref : false, equal_outputs : false, damage : true};
    match name
    {
        "sched" => Profile{serial_ref : true, equal_outputs : true, max_steps : 10, ..base},
        "env" => Profile{env : true, fail : false, ..base},
        "clock" => Profile{tick : true, twin : true, fail : true, wreck : false, equal_outputs : true, damage : false, ..base},
        "clockd" => Profile{tick : false, twin : true, fail : false, wreck : false, equal_outputs : true, damage : false, ..base},
        "big" => Profile{max_rules : 10, max_steps : 24, ..base},
        "crash" => Profile{max_steps : 7, wreck : false, damage : false, ..base},
        _ => base,
    }
}

const POOL : [&str; 12] = ["m", "c", "x", "b", "k", "a2", "z", "d", "w", "e", "y", "f"];

pub fn gen_rules(rng : &mut Rng, pr : &Profile) -> (Vec<XRule>, Vec<String>)
{
    let nleaves = 1 + rng.below(3);
    let leaves : Vec<String> = (0..nleaves).map(|i| format!("l{}", i)).collect();
    let nrules = 1 + rng.below(pr.max_rules);
    let mut rules : Vec<XRule> = vec![];
    let mut avail : Vec<String> = leaves.clone();
    let mut ni = 0;
    for k in 0..nrules
    {
        let nt = match rng.below(16) { 0..=11 => 1, 12..=14 => 2, _ => 3 };
        let mut tg = vec![];
        if nt >= 2 && rng.chance(1, 2)
        {   /* a directory and a sibling file whose name extends the directory's: bundle order and string order differ */
            tg.push(format!("{}{}/o", POOL[ni % POOL.len()], ni));
            tg.push(format!("{}{}.s", POOL[ni % POOL.len()], ni));
            ni += 1;
            for _ in 2..nt { tg.push(format!("{}{}", POOL[ni % POOL.len()], ni)); ni += 1; }
        }
        else if nt == 1 && rules.len() > 0 && rng.chance(1, 5)
        {   /* a target whose name extends the name of another rule's target (goal names must not match by prefix) */
            let other = &rules[rng.below(rules.len())].tg[0];
            if !other.contains('/') { tg.push(format!("{}x", other)); } else { tg.push(format!("{}{}", POOL[ni % POOL.len()], ni)); }
            ni += 1;
        }
        else { for _ in 0..nt { tg.push(format!("{}{}", POOL[ni % POOL.len()], ni)); ni += 1; } }
        let ns = 1 + rng.below(std::cmp::min(3, avail.len()));
        let mut src : Vec<String> = vec![];
        while src.len() < ns { let c = avail[rng.below(avail.len())].clone(); if !src.contains(&c) { src.push(c); } }
        let kind = match rng.below(20)
        {
            0..=7 => "fn", 8..=10 => "sel", 11..=16 => "copy", 17 => if rng.chance(1, 2) { "const" } else { "empty" },
            _ => if pr.fail { if rng.chance(1, 3) { "kill" } else { "fail" } } else if pr.equal_outputs { "copy" } else { "fn" },
        };
        let kind = if pr.equal_outputs && rng.chance(1, 3) { "copy" } else { kind };
        let t : Vec<&str> = tg.iter().map(|s| s.as_str()).collect();
        let s : Vec<&str> = src.iter().map(|s| s.as_str()).collect();
        let mut r = XRule::new(&t, &s, kind, &format!("c{}", k));
        if pr.fail && kind != "fail" && rng.chance(1, 25) { r.omit = 1 + rng.below(nt); }
        if pr.fail && rng.chance(1, 20) { r.pf = true; r.pk = rng.chance(1, 2); }
        if pr.env && kind != "fail" && rng.chance(1, 3)
        {
            for i in 1..=nt { if rng.chance(1, 2) { r.mask.push(i); } }
            if r.mask.len() == 0 { r.mask.push(1 + rng.below(nt)); }
        }
        r.x = rng.chance(1, 6);
        r.layout = rng.below(2) as u8;
        r.rev = rng.chance(1, 2);
        r.flat = rng.chance(1, 4);
        for t in &r.tg { avail.push(t.clone()); }
        rules.push(r);
    }
    (rules, leaves)
}


pub fn write_lines(path : &str, lines : &Vec<Value>)
{
    use std::io::Write;
    let mut f = std::io::BufWriter::new(std::fs::File::create(path).expect("create trace file"));
    for l in lines { writeln!(f, "{}", l).unwrap(); }
}

#[allow(dead_code)]
pub fn counts(lines : &Vec<Value>) -> BTreeMap<String, usize>
{
    let mut m = BTreeMap::new();
    for l in lines { *m.entry(l["a"].as_str().unwrap_or("?").to_string()).or_insert(0) += 1; }
    m
}
