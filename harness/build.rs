// Generates the module list of the harness from /repo/src/main.rs, so that the harness always
// compiles the modules the current working tree declares.
use std::io::Write;
fn main()
{
    let src = std::env::var("RULER_SRC").unwrap_or("/repo/src".to_string());
    println!("cargo:rerun-if-env-changed=RULER_SRC");
    println!("cargo:rerun-if-changed={}/main.rs", src);
    let main_rs = std::fs::read_to_string(format!("{}/main.rs", src)).expect("read main.rs");
    let mut out = String::new();
    let mut cfg : Option<String> = None;
    for line in main_rs.lines()
    {
        let t = line.trim();
        if t.starts_with("#[cfg(") { cfg = Some(t.to_string()); continue; }
        if t.starts_with("mod ") && t.ends_with(';')
        {
            let name = t[4..t.len() - 1].trim();
            let path = if std::path::Path::new(&format!("{}/{}.rs", src, name)).exists()
                { format!("{}/{}.rs", src, name) } else { format!("{}/{}/mod.rs", src, name) };
            if let Some(c) = &cfg { out.push_str(c); out.push('\n'); }
            out.push_str(&format!("#[path = \"{}\"] pub mod {};\n", path, name));
        }
        cfg = None;
    }
    let dir = std::env::var("OUT_DIR").unwrap();
    let mut f = std::fs::File::create(format!("{}/mods.rs", dir)).unwrap();
    f.write_all(out.as_bytes()).unwrap();
}
